#!/usr/bin/env python3
"""Validate MANIFEST.json and evidence/*.json against the interface schemas (run with python3-vt)."""
import json, sys, glob, jsonschema
root = '/verif'
ok = True
man = json.load(open(f'{root}/MANIFEST.json'))
jsonschema.validate(man, json.load(open('/root/.vp/MANIFEST.schema.json')))
esch = json.load(open('/root/.vp/EVIDENCE.schema.json'))
props = [json.loads(l)['id'] for l in open(f'{root}/properties.jsonl')]
claimed = [c['property_id'] for c in man['checks']]
na = [c['property_id'] for c in man.get('not_applicable', [])]
for p in props:
    if (p in claimed) == (p in na):
        print('property', p, 'must be exactly one of claimed / not_applicable'); ok = False
for f in sorted(glob.glob(f'{root}/evidence/*.json')):
    try:
        jsonschema.validate(json.load(open(f)), esch)
    except Exception as e:
        print('INVALID', f, str(e)[:300]); ok = False
print('manifest ok; claimed', len(claimed), 'not_applicable', len(na), 'evidence files', len(glob.glob(f'{root}/evidence/*.json')))
sys.exit(0 if ok else 1)
