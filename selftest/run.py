#!/usr/bin/env python3
"""Detection self-test: apply each property-breaking change (selftest/mutants/*.diff and
seeded/<id>/patch.diff) to /repo, run the quick checks it is expected to trip, require
exit 1 with a VIOLATION line, and restore /repo. A mutant that every expected check misses
is reported as MISSED (exit 1 of this script).

usage: selftest/run.py [--all-checks] [--only NAME[,NAME..]] [--tier quick|thorough]
"""
import json, os, subprocess, sys, glob, time

ROOT = os.path.dirname(os.path.dirname(os.path.abspath(__file__)))
REPO = '/repo'


def sh(cmd, cwd=None, timeout=None):
    return subprocess.run(cmd, shell=True, cwd=cwd, capture_output=True, text=True, timeout=timeout)


def repo_clean():
    return sh('git status --porcelain --untracked-files=no', cwd=REPO).stdout.strip() == ''


def main():
    args = sys.argv[1:]
    only = None
    tier = 'quick'
    all_checks = '--all-checks' in args
    if '--only' in args:
        only = args[args.index('--only') + 1].split(',')
    if '--tier' in args:
        tier = args[args.index('--tier') + 1]
    if not repo_clean():
        print('selftest: /repo has uncommitted changes; refusing to run')
        return 2
    mutants = []
    for m in json.load(open(f'{ROOT}/selftest/mutants/index.json')):
        mutants.append(dict(name=m['name'], patch=f"{ROOT}/selftest/mutants/{m['name']}.diff", breaks=m['breaks'], needs=m['needs']))
    for meta in sorted(glob.glob(f'{ROOT}/seeded/*/meta.json')):
        m = json.load(open(meta))
        d = os.path.dirname(meta)
        mutants.append(dict(name='seeded/' + os.path.basename(d), patch=f'{d}/patch.diff', breaks=m['breaks'], needs=m.get('needs', ''), out_of_domain=m.get('out_of_domain', False)))
    props = [json.loads(l)['id'] for l in open(f'{ROOT}/properties.jsonl')]
    results = []
    missed = 0
    try:
        for m in mutants:
            if only and not any(o in m['name'] for o in only):
                continue
            r = sh(f"git apply {m['patch']}", cwd=REPO)
            if r.returncode != 0:
                print(f"{m['name']}: patch does not apply: {r.stderr.strip()[:200]}")
                results.append(dict(name=m['name'], status='patch-does-not-apply'))
                missed += 1
                continue
            checks = props if all_checks else m['breaks']
            caught, detail = [], {}
            t0 = time.time()
            for c in checks:
                r = sh(f'./check {c} {tier}', cwd=ROOT, timeout=3600)
                viol = [l for l in r.stdout.splitlines() if l.startswith('VIOLATION')]
                sigs = [l.strip() for l in r.stdout.splitlines() if l.strip().startswith('signature:')]
                detail[c] = dict(exit=r.returncode, violation_lines=len(viol), signatures=sigs[:3])
                if r.returncode == 1 and viol:
                    caught.append(c)
                elif r.returncode not in (0, 1):
                    detail[c]['stderr'] = r.stderr.strip()[-300:]
            sh('git checkout -- .', cwd=REPO)
            ok = len(caught) > 0 and all(c in caught for c in m['breaks'][:1])
            status = 'CAUGHT' if ok else ('OUT-OF-DOMAIN (not caught, as expected)' if m.get('out_of_domain') else 'MISSED')
            if not ok and not m.get('out_of_domain'):
                missed += 1
            print(f"{m['name']:<42} {status}  expected={','.join(m['breaks'])} caught_by={','.join(caught) or '-'}  ({time.time()-t0:.0f}s)", flush=True)
            results.append(dict(name=m['name'], status=status, expected=m['breaks'], caught_by=caught, needs=m['needs'], detail=detail))
    finally:
        sh('git checkout -- .', cwd=REPO)
    out = f'{ROOT}/selftest/results.json'
    prev = []
    if only and os.path.exists(out):
        prev = [r for r in json.load(open(out)) if not any(r['name'] == x['name'] for x in results)]
    json.dump(prev + results, open(out, 'w'), indent=1)
    print(f'selftest: {len(results)} mutants, {missed} missed; results in {out}')
    return 1 if missed else 0


if __name__ == '__main__':
    sys.exit(main())
