#!/usr/bin/env bash
# Run every check of one tier on the current tree and summarise (convenience; not part of the interface).
#   ./tools_run_all.sh quick|thorough [IDs...]
cd "$(dirname "${BASH_SOURCE[0]}")"
tier="${1:-quick}"; shift || true
ids=("$@"); [ ${#ids[@]} -eq 0 ] && ids=(C01 C02 C03 C04 C05 C06 C07 C08 C09 C10 C11 C12 C13 C14 C15 C16 C17 C18 C19)
for p in "${ids[@]}"; do
  s=$(date +%s)
  out=$(./check "$p" "$tier" 2>/dev/null); rc=$?
  e=$(date +%s)
  echo "$p $tier exit=$rc wall=$((e-s))s $(echo "$out" | grep -E '^OK|^VIOLATION|^KNOWN' | head -3 | tr '\n' ' ' | cut -c1-220)"
done
