//! Scripted stand-in for `rand` 0.8: the harness owns the answer to every `next_u64()`.
//! Only the surface volute uses is provided (`thread_rng()`, `RngCore`); if volute starts
//! using more of the rand API this crate stops compiling and the ENV check reports a
//! machinery failure instead of a verdict.

use std::cell::RefCell;

pub trait RngCore {
    fn next_u32(&mut self) -> u32;
    fn next_u64(&mut self) -> u64;
    fn fill_bytes(&mut self, dest: &mut [u8]);
}

/// The answer stream of one thread.
#[derive(Clone, Debug)]
pub enum Script {
    /// answer k = base, except at the listed (index, value) deviations
    Const { base: u64, devs: Vec<(usize, u64)> },
    /// answer k = a fixed irregular function of (seed, k): all answers distinct
    Mix { seed: u64 },
}

fn mix(mut x: u64) -> u64 {
    x ^= x >> 30;
    x = x.wrapping_mul(0xbf58476d1ce4e5b9);
    x ^= x >> 27;
    x = x.wrapping_mul(0x94d049bb133111eb);
    x ^ (x >> 31)
}

impl Script {
    pub fn answer(&self, k: usize) -> u64 {
        match self {
            Script::Const { base, devs } => devs.iter().find(|d| d.0 == k).map(|d| d.1).unwrap_or(*base),
            Script::Mix { seed } => mix(seed.wrapping_mul(0x9e3779b97f4a7c15).wrapping_add(k as u64 + 1)),
        }
    }
}

thread_local! {
    static STATE: RefCell<(Script, usize)> = RefCell::new((Script::Const { base: 0, devs: Vec::new() }, 0));
}

pub mod script {
    use super::{Script, STATE};

    /// Install the answer stream of the current thread and reset its cursor.
    pub fn set(s: Script) {
        STATE.with(|st| *st.borrow_mut() = (s, 0));
    }

    /// Number of answers consumed on this thread since the last `set`.
    pub fn consumed() -> usize {
        STATE.with(|st| st.borrow().1)
    }
}

#[derive(Clone, Debug, Default)]
pub struct ThreadRng;

pub fn thread_rng() -> ThreadRng {
    ThreadRng
}

impl RngCore for ThreadRng {
    fn next_u64(&mut self) -> u64 {
        STATE.with(|st| {
            let mut s = st.borrow_mut();
            let k = s.1;
            s.1 += 1;
            s.0.answer(k)
        })
    }
    fn next_u32(&mut self) -> u32 {
        self.next_u64() as u32
    }
    fn fill_bytes(&mut self, dest: &mut [u8]) {
        for chunk in dest.chunks_mut(8) {
            let v = self.next_u64().to_le_bytes();
            chunk.copy_from_slice(&v[..chunk.len()]);
        }
    }
}

pub mod rngs {
    pub use super::ThreadRng;
}
