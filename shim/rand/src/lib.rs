//! Scripted stand-in for `rand` 0.8: the harness owns the answer to every `next_u64()` of
//! `thread_rng()`. The surface volute uses today is `thread_rng()` + `RngCore`; the other
//! commonly used entry points (`Rng::{gen, gen_bool, gen_range, fill}`, `SeedableRng`,
//! `rngs::{StdRng, SmallRng}`, `random()`, `prelude`) are provided as well so that plausible
//! rewrites of `fill_random` still build against the shim. Seedable generators are
//! deterministic functions of their seed; `from_entropy()` seeds from the scripted stream.
//! If volute uses something that is not here the ENV build fails and the check reports a
//! machinery failure for the ENV part instead of a verdict.

use std::cell::RefCell;

pub trait RngCore {
    fn next_u32(&mut self) -> u32;
    fn next_u64(&mut self) -> u64;
    fn fill_bytes(&mut self, dest: &mut [u8]);
    fn try_fill_bytes(&mut self, dest: &mut [u8]) -> Result<(), Error> {
        self.fill_bytes(dest);
        Ok(())
    }
}

#[derive(Debug)]
pub struct Error;

impl std::fmt::Display for Error {
    fn fmt(&self, f: &mut std::fmt::Formatter<'_>) -> std::fmt::Result {
        write!(f, "rand shim error")
    }
}

impl std::error::Error for Error {}

impl<'a, R: RngCore + ?Sized> RngCore for &'a mut R {
    fn next_u32(&mut self) -> u32 {
        (**self).next_u32()
    }
    fn next_u64(&mut self) -> u64 {
        (**self).next_u64()
    }
    fn fill_bytes(&mut self, dest: &mut [u8]) {
        (**self).fill_bytes(dest)
    }
}

impl<R: RngCore + ?Sized> RngCore for Box<R> {
    fn next_u32(&mut self) -> u32 {
        (**self).next_u32()
    }
    fn next_u64(&mut self) -> u64 {
        (**self).next_u64()
    }
    fn fill_bytes(&mut self, dest: &mut [u8]) {
        (**self).fill_bytes(dest)
    }
}

/// The answer stream of one thread.
#[derive(Clone, Debug)]
pub enum Script {
    /// answer k = base, except at the listed (index, value) deviations
    Const { base: u64, devs: Vec<(usize, u64)> },
    /// answer k = a fixed irregular function of (seed, k): all answers distinct
    Mix { seed: u64 },
}

fn mix(mut x: u64) -> u64 {
    x ^= x >> 30;
    x = x.wrapping_mul(0xbf58476d1ce4e5b9);
    x ^= x >> 27;
    x = x.wrapping_mul(0x94d049bb133111eb);
    x ^ (x >> 31)
}

impl Script {
    pub fn answer(&self, k: usize) -> u64 {
        match self {
            Script::Const { base, devs } => devs.iter().find(|d| d.0 == k).map(|d| d.1).unwrap_or(*base),
            Script::Mix { seed } => mix(seed.wrapping_mul(0x9e3779b97f4a7c15).wrapping_add(k as u64 + 1)),
        }
    }
}

thread_local! {
    static STATE: RefCell<(Script, usize)> = RefCell::new((Script::Const { base: 0, devs: Vec::new() }, 0));
}

pub mod script {
    use super::{Script, STATE};

    /// Install the answer stream of the current thread and reset its cursor.
    pub fn set(s: Script) {
        STATE.with(|st| *st.borrow_mut() = (s, 0));
    }

    /// Number of answers consumed on this thread since the last `set`.
    pub fn consumed() -> usize {
        STATE.with(|st| st.borrow().1)
    }
}

#[derive(Clone, Debug, Default)]
pub struct ThreadRng;

pub fn thread_rng() -> ThreadRng {
    ThreadRng
}

fn fill_bytes_from(next: &mut dyn FnMut() -> u64, dest: &mut [u8]) {
    for chunk in dest.chunks_mut(8) {
        let v = next().to_le_bytes();
        chunk.copy_from_slice(&v[..chunk.len()]);
    }
}

impl RngCore for ThreadRng {
    fn next_u64(&mut self) -> u64 {
        STATE.with(|st| {
            let mut s = st.borrow_mut();
            let k = s.1;
            s.1 += 1;
            s.0.answer(k)
        })
    }
    fn next_u32(&mut self) -> u32 {
        self.next_u64() as u32
    }
    fn fill_bytes(&mut self, dest: &mut [u8]) {
        let mut f = || self.next_u64();
        fill_bytes_from(&mut f, dest)
    }
}

// ---------------------------------------------------------------------------------------
// Seedable generators: deterministic functions of the seed

pub trait SeedableRng: Sized {
    type Seed: Sized + Default + AsMut<[u8]>;
    fn from_seed(seed: Self::Seed) -> Self;
    fn seed_from_u64(state: u64) -> Self {
        let mut seed = Self::Seed::default();
        let mut x = state;
        for b in seed.as_mut().iter_mut() {
            x = mix(x.wrapping_add(0x9e3779b97f4a7c15));
            *b = x as u8;
        }
        Self::from_seed(seed)
    }
    fn from_rng<R: RngCore>(mut rng: R) -> Result<Self, Error> {
        let mut seed = Self::Seed::default();
        rng.fill_bytes(seed.as_mut());
        Ok(Self::from_seed(seed))
    }
    fn from_entropy() -> Self {
        Self::from_rng(thread_rng()).unwrap()
    }
}

macro_rules! seedable {
    ($name:ident) => {
        #[derive(Clone, Debug, PartialEq, Eq)]
        pub struct $name {
            key: u64,
            ctr: u64,
        }
        impl SeedableRng for $name {
            type Seed = [u8; 32];
            fn from_seed(seed: [u8; 32]) -> Self {
                let mut key = 0x243f6a8885a308d3u64;
                for c in seed.chunks(8) {
                    let mut b = [0u8; 8];
                    b.copy_from_slice(c);
                    key = mix(key ^ u64::from_le_bytes(b)).wrapping_add(0x9e3779b97f4a7c15);
                }
                $name { key, ctr: 0 }
            }
        }
        impl RngCore for $name {
            fn next_u64(&mut self) -> u64 {
                self.ctr += 1;
                mix(self.key.wrapping_add(self.ctr.wrapping_mul(0x9e3779b97f4a7c15)))
            }
            fn next_u32(&mut self) -> u32 {
                self.next_u64() as u32
            }
            fn fill_bytes(&mut self, dest: &mut [u8]) {
                let mut f = || self.next_u64();
                fill_bytes_from(&mut f, dest)
            }
        }
    };
}

pub mod rngs {
    use super::*;
    pub use super::ThreadRng;
    seedable!(StdRng);
    seedable!(SmallRng);
    pub mod mock {
        /// `StepRng` of rand: an arithmetic sequence
        #[derive(Clone, Debug)]
        pub struct StepRng {
            v: u64,
            a: u64,
        }
        impl StepRng {
            pub fn new(initial: u64, increment: u64) -> Self {
                StepRng { v: initial, a: increment }
            }
        }
        impl super::RngCore for StepRng {
            fn next_u64(&mut self) -> u64 {
                let r = self.v;
                self.v = self.v.wrapping_add(self.a);
                r
            }
            fn next_u32(&mut self) -> u32 {
                self.next_u64() as u32
            }
            fn fill_bytes(&mut self, dest: &mut [u8]) {
                let mut f = || self.next_u64();
                super::fill_bytes_from(&mut f, dest)
            }
        }
    }
}

// ---------------------------------------------------------------------------------------
// Rng: gen / gen_bool / gen_range / fill

pub trait Standard: Sized {
    fn generate<R: RngCore + ?Sized>(rng: &mut R) -> Self;
}

macro_rules! std_int {
    ($($t:ty),*) => {$(
        impl Standard for $t {
            fn generate<R: RngCore + ?Sized>(rng: &mut R) -> Self {
                rng.next_u64() as $t
            }
        }
    )*};
}
std_int!(u8, u16, u32, u64, usize, i8, i16, i32, i64, isize);

impl Standard for u128 {
    fn generate<R: RngCore + ?Sized>(rng: &mut R) -> Self {
        (rng.next_u64() as u128) | ((rng.next_u64() as u128) << 64)
    }
}

impl Standard for bool {
    fn generate<R: RngCore + ?Sized>(rng: &mut R) -> Self {
        // rand: the most significant bit of a u32
        (rng.next_u32() as i32) < 0
    }
}

impl<T: Standard, const N: usize> Standard for [T; N] {
    fn generate<R: RngCore + ?Sized>(rng: &mut R) -> Self {
        std::array::from_fn(|_| T::generate(rng))
    }
}

pub trait Fill {
    fn fill_from<R: RngCore + ?Sized>(&mut self, rng: &mut R);
}

impl Fill for [u8] {
    fn fill_from<R: RngCore + ?Sized>(&mut self, rng: &mut R) {
        rng.fill_bytes(self)
    }
}

macro_rules! fill_int {
    ($($t:ty),*) => {$(
        impl Fill for [$t] {
            fn fill_from<R: RngCore + ?Sized>(&mut self, rng: &mut R) {
                for x in self.iter_mut() {
                    *x = <$t as Standard>::generate(rng);
                }
            }
        }
    )*};
}
fill_int!(u16, u32, u64, usize, u128, i8, i16, i32, i64, isize);

impl<T, const N: usize> Fill for [T; N]
where
    [T]: Fill,
{
    fn fill_from<R: RngCore + ?Sized>(&mut self, rng: &mut R) {
        self[..].fill_from(rng)
    }
}

pub trait SampleRange<T> {
    fn sample_from<R: RngCore + ?Sized>(self, rng: &mut R) -> T;
}

macro_rules! range_int {
    ($($t:ty),*) => {$(
        impl SampleRange<$t> for std::ops::Range<$t> {
            fn sample_from<R: RngCore + ?Sized>(self, rng: &mut R) -> $t {
                let span = (self.end as u128).wrapping_sub(self.start as u128) as u64;
                assert!(span != 0, "empty range");
                (self.start as u128 + (rng.next_u64() % span) as u128) as $t
            }
        }
        impl SampleRange<$t> for std::ops::RangeInclusive<$t> {
            fn sample_from<R: RngCore + ?Sized>(self, rng: &mut R) -> $t {
                let span = (*self.end() as u128).wrapping_sub(*self.start() as u128).wrapping_add(1);
                if span == 0 || span > u64::MAX as u128 {
                    return rng.next_u64() as $t;
                }
                (*self.start() as u128 + (rng.next_u64() as u128 % span)) as $t
            }
        }
    )*};
}
range_int!(u8, u16, u32, u64, usize);

pub trait Rng: RngCore {
    fn gen<T: Standard>(&mut self) -> T {
        T::generate(self)
    }
    fn gen_bool(&mut self, p: f64) -> bool {
        ((self.next_u64() >> 11) as f64) / ((1u64 << 53) as f64) < p
    }
    fn gen_range<T, S: SampleRange<T>>(&mut self, range: S) -> T {
        range.sample_from(self)
    }
    fn fill<T: Fill + ?Sized>(&mut self, dest: &mut T) {
        dest.fill_from(self)
    }
    fn try_fill<T: Fill + ?Sized>(&mut self, dest: &mut T) -> Result<(), Error> {
        dest.fill_from(self);
        Ok(())
    }
}

impl<R: RngCore + ?Sized> Rng for R {}

pub fn random<T: Standard>() -> T {
    T::generate(&mut thread_rng())
}

pub mod prelude {
    pub use super::rngs::{SmallRng, StdRng, ThreadRng};
    pub use super::{random, thread_rng, Rng, RngCore, SeedableRng};
}
