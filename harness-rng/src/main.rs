//! lsx-rng — ENV-mode exploration for C19: volute is built against a scripted `rand`
//! (shim/rand), so the harness owns the answer to every `next_u64()` and enumerates answer
//! streams with a bounded number of deviations from a constant stream.
//!
//!   lsx-rng run quick|thorough      prints the run as JSON (merged by `lsx C19`)
//!   lsx-rng replay <file>           re-executes one recorded case

#![allow(dead_code)]

#[path = "../../harness/src/api.rs"]
mod api;
#[path = "../../harness/src/engine/mod.rs"]
mod engine;
#[path = "../../harness/src/model/mod.rs"]
mod model;

use api::Tab;
use engine::json::J;
use engine::{fmt_words, guarded, Case, Local, Run, Tier};
use model::tt::{nbits, nwords, well_formed};
use rand::Script;

fn script_str(s: &Script) -> String {
    match s {
        Script::Const { base, devs } => format!("const:{:x}:{}", base, devs.iter().map(|d| format!("{}@{:x}", d.0, d.1)).collect::<Vec<_>>().join("+")),
        Script::Mix { seed } => format!("mix:{:x}", seed),
    }
}

fn parse_script(s: &str) -> Result<Script, String> {
    let p: Vec<&str> = s.split(':').collect();
    match p[0] {
        "mix" => Ok(Script::Mix { seed: u64::from_str_radix(p[1], 16).map_err(|e| e.to_string())? }),
        "const" => {
            let base = u64::from_str_radix(p[1], 16).map_err(|e| e.to_string())?;
            let mut devs = Vec::new();
            for d in p.get(2).unwrap_or(&"").split('+').filter(|x| !x.is_empty()) {
                let (k, v) = d.split_once('@').ok_or("bad deviation")?;
                devs.push((k.parse::<usize>().map_err(|e| e.to_string())?, u64::from_str_radix(v, 16).map_err(|e| e.to_string())?));
            }
            Ok(Script::Const { base, devs })
        }
        _ => Err("bad script".into()),
    }
}

/// two consecutive draws under one script: (blocks1, blocks2, answers consumed)
fn draw2<L: Tab>(n: usize, s: &Script) -> Result<(Vec<u64>, Vec<u64>, usize), String> {
    guarded(|| {
        rand::script::set(s.clone());
        let a = L::t_random(n);
        let b = L::t_random(n);
        (a.t_blocks().to_vec(), b.t_blocks().to_vec(), rand::script::consumed())
    })
}

type Verdict = Result<(), (String, String)>;

fn wf_check<L: Tab>(n: usize, s: &Script) -> Result<(Vec<u64>, Vec<u64>), (String, String)> {
    match draw2::<L>(n, s) {
        Err(p) => Err((format!("random() returns a {}-variable table", n), p)),
        Ok((a, b, _)) => {
            for (k, t) in [&a, &b].iter().enumerate() {
                if !well_formed(n, t) {
                    return Err((format!("random() (call {}) returns a well-formed table: {} block(s), no bit at a position >= {}", k + 1, nwords(n), nbits(n)), format!("blocks [{}] under the answer stream {}", fmt_words(t), script_str(s))));
                }
            }
            Ok((a, b))
        }
    }
}

fn deviation_values(base: u64, seed: u64) -> Vec<u64> {
    vec![!base, 1, 1u64 << 63, 0x5555_5555_5555_5555, engine::mix(seed ^ 0xC19) | 2]
}

fn explore<L: Tab>(run: &Run, st: bool, n: usize) {
    let w = nwords(n);
    let tname = L::tname(n);
    // the explored streams
    let mut streams: Vec<Script> = Vec::new();
    for base in [0u64, !0u64] {
        streams.push(Script::Const { base, devs: vec![] });
        // deviations at every answer index consumed by two calls of a one-answer-per-word generator
        let horizon = 2 * w;
        for k in 0..horizon {
            for v in deviation_values(base, run.seed) {
                streams.push(Script::Const { base, devs: vec![(k, v)] });
            }
        }
        if run.thorough() || w <= 8 {
            for k1 in 0..w {
                for k2 in (k1 + 1)..w {
                    if w > 16 && !(k1 < 2 || k2 >= w - 2 || k2 == k1 + 1) {
                        continue;
                    }
                    for v1 in deviation_values(base, run.seed) {
                        for v2 in deviation_values(base, run.seed) {
                            streams.push(Script::Const { base, devs: vec![(k1, v1), (k2, v2)] });
                        }
                    }
                }
            }
        }
    }
    for s in 0..32u64 {
        streams.push(Script::Mix { seed: run.seed.wrapping_mul(1000).wrapping_add(s) });
    }
    let total = streams.len() as u64;
    let name = format!("ENV n={} {}: {} answer streams (constant 0 / !0 with <= {} deviations at every answer index, 32 irregular streams), two consecutive draws each", n, tname, total, if run.thorough() || w <= 8 { 2 } else { 1 });
    // aggregated observations over all streams
    let agg = std::sync::Mutex::new((vec![0u64; w], vec![0u64; w], vec![std::collections::BTreeSet::<u64>::new(); w], vec![false; w * w], 0u64, 0u64));
    run.section(&name, false, "deviation-bounded enumeration of the environment's answers; well-formedness on every stream", total, 64, |r, l| {
        let mut ones = vec![0u64; w];
        let mut zeros = vec![0u64; w];
        let mut vals = vec![std::collections::BTreeSet::<u64>::new(); w];
        let mut differ = vec![false; w * w];
        let (mut same_pairs, mut mix_pairs) = (0u64, 0u64);
        for k in r {
            let s = &streams[k as usize];
            l.states += 1;
            l.transitions += 2;
            l.validated += 2;
            match wf_check::<L>(n, s) {
                Ok((a, b)) => {
                    l.nontrivial += matches!(s, Script::Const { devs, .. } if !devs.is_empty()) as u64 + matches!(s, Script::Mix { .. }) as u64;
                    l.digest ^= engine::mix3(engine::hash_words(&a), engine::hash_words(&b), k);
                    let mask = if n < 6 { (1u64 << nbits(n)) - 1 } else { !0 };
                    for t in [&a, &b] {
                        for i in 0..w {
                            ones[i] |= t[i];
                            zeros[i] |= !t[i] & mask;
                            if vals[i].len() < 4 {
                                vals[i].insert(t[i]);
                            }
                            for j in 0..w {
                                if t[i] != t[j] {
                                    differ[i * w + j] = true;
                                }
                            }
                        }
                    }
                    if matches!(s, Script::Mix { .. }) {
                        mix_pairs += 1;
                        same_pairs += (a == b) as u64;
                    }
                }
                Err(v) => {
                    let sig = "C19/random/malformed-table";
                    l.violation(format!("{:02}|{}|wf|{}", n, if st { "S" } else { "D" }, script_str(s)), sig, format!("bin=rng;kind=wf;ty={};n={};script={}", if st { "S" } else { "D" }, n, script_str(s)), v.0, v.1);
                }
            }
            if k == total / 2 {
                l.sample(J::s(format!("bin=rng;kind=wf;ty={};n={};script={}", if st { "S" } else { "D" }, n, script_str(s))));
            }
        }
        let mut g = agg.lock().unwrap();
        for i in 0..w {
            g.0[i] |= ones[i];
            g.1[i] |= zeros[i];
            let extra: Vec<u64> = vals[i].iter().copied().collect();
            for v in extra {
                if g.2[i].len() < 4 {
                    g.2[i].insert(v);
                }
            }
        }
        for (x, d) in g.3.iter_mut().zip(differ.iter()) {
            *x |= *d;
        }
        g.4 += same_pairs;
        g.5 += mix_pairs;
    });
    // verdicts over the explored streams (outcome-level, so any reasonable generator passes)
    let g = agg.lock().unwrap();
    let mut l = Local::default();
    let mask = if n < 6 { (1u64 << nbits(n)) - 1 } else { !0 };
    let tys = if st { "S" } else { "D" };
    for i in 0..w {
        if g.0[i] != mask || g.1[i] != mask {
            l.violation(format!("{:02}|{}|degenerate|pos|{}", n, tys, i), "C19/random/degenerate-position", format!("bin=rng;kind=agg;ty={};n={}", tys, n), format!("over the {} explored answer streams every table position takes both values", total), format!("block {}: positions never 1: {:x}, never 0: {:x}", i, !g.0[i] & mask, !g.1[i] & mask));
            break;
        }
        if g.2[i].len() < 2 {
            l.violation(format!("{:02}|{}|degenerate|block|{}", n, tys, i), "C19/random/degenerate-block", format!("bin=rng;kind=agg;ty={};n={}", tys, n), "every 64-bit block takes at least two values over the explored streams".into(), format!("block {} always {:x?}", i, g.2[i]));
            break;
        }
    }
    'outer: for i in 0..w {
        for j in 0..w {
            if i != j && !g.3[i * w + j] {
                l.violation(format!("{:02}|{}|dependent|{}|{}", n, tys, i, j), "C19/random/blocks-not-independent", format!("bin=rng;kind=agg;ty={};n={}", tys, n), "for every pair of blocks some explored stream makes them differ".into(), format!("blocks {} and {} are equal under every explored stream", i, j));
                break 'outer;
            }
        }
    }
    if g.5 > 0 && g.4 == g.5 {
        l.violation(format!("{:02}|{}|repeat", n, tys), "C19/random/consecutive-calls-identical", format!("bin=rng;kind=agg;ty={};n={}", tys, n), "two consecutive calls on one stream of pairwise distinct answers do not always return the same table".into(), format!("identical in all {} irregular streams", g.5));
    }
    run.viol_count.fetch_add(l.viol_count, std::sync::atomic::Ordering::Relaxed);
    run.viols.lock().unwrap().extend(l.viols);
}

/// calls on two threads with different scripts equal the sequential reference
fn threads<L: Tab>(run: &Run, st: bool, n: usize) {
    run.section_seq(&format!("ENV threads n={} {}: two concurrent threads with different answer streams vs the sequential reference", n, L::tname(n)), false, "16 stream pairs; each thread draws 4 tables", |l| {
        for k in 0..16u64 {
            let sa = Script::Mix { seed: 7000 + k };
            let sb = Script::Mix { seed: 9000 + k };
            let draw4 = |s: &Script| -> Result<Vec<Vec<u64>>, String> {
                guarded(|| {
                    rand::script::set(s.clone());
                    (0..4).map(|_| L::t_random(n).t_blocks().to_vec()).collect()
                })
            };
            let ra = draw4(&sa);
            let rb = draw4(&sb);
            let (ta, tb) = std::thread::scope(|sc| {
                let ha = sc.spawn(|| draw4(&sa));
                let hb = sc.spawn(|| draw4(&sb));
                (ha.join().unwrap(), hb.join().unwrap())
            });
            l.states += 2;
            l.transitions += 8;
            l.validated += 8;
            if ra == ta && rb == tb && ra.is_ok() && rb.is_ok() {
                l.nontrivial += 2;
                l.digest ^= engine::mix3(k, n as u64, engine::hash_words(&ra.unwrap()[0]));
            } else {
                l.violation(format!("{:02}|{}|threads|{}", n, if st { "S" } else { "D" }, k), "C19/random/threads-interfere", format!("bin=rng;kind=threads;ty={};n={};k={}", if st { "S" } else { "D" }, n, k), "draws on a thread depend only on that thread's answer stream".into(), format!("sequential {:?}/{:?} vs concurrent {:?}/{:?}", ra.map(|v| v[0].clone()), rb.map(|v| v[0].clone()), ta.map(|v| v[0].clone()), tb.map(|v| v[0].clone())));
            }
        }
    });
}

/// Histories mixing sizes on one fresh thread: one draw of size n1, then 64 draws of size n2.
/// A generator that keeps state between calls (a bit pool, a cached word) must stay
/// non-degenerate whatever was drawn before.
fn histories(run: &Run, st: bool) {
    let pairs: Vec<(usize, usize)> = (0..=8usize).flat_map(|a| (0..=8usize).map(move |b| (a, b))).collect();
    let total = pairs.len() as u64;
    run.section(&format!("ENV histories {}: one draw of n1 then 64 draws of n2 on a fresh thread, all (n1, n2) in 0..=8 x 0..=8, 4 irregular streams", if st { "LutN" } else { "Lut" }), false, "every ordered pair of sizes; each history on its own thread so that per-thread generator state starts fresh", total, 1, |r, l| {
        for k in r {
            let (n1, n2) = pairs[k as usize];
            for sd in 0..4u64 {
                let s = Script::Mix { seed: run.seed.wrapping_mul(77).wrapping_add(1000 * sd + k) };
                fn go<L2: Tab>(n1: usize, n2: usize, s: &Script) -> Result<Vec<Vec<u64>>, String> {
                    guarded(|| {
                        rand::script::set(s.clone());
                        // the earlier, differently sized draw (the kernel is shared by both table types)
                        let _ = <volute::Lut as Tab>::t_random(n1);
                        (0..64).map(|_| L2::t_random(n2).t_blocks().to_vec()).collect()
                    })
                }
                let s2 = s.clone();
                let res = std::thread::scope(|sc| sc.spawn(move || for_type!(st, n2, go(n1, n2, &s2))).join().unwrap_or_else(|_| Err("history thread panicked".into())));
                l.states += 1;
                l.transitions += 65;
                l.validated += 65;
                let w = nwords(n2);
                let mask = if n2 < 6 { (1u64 << nbits(n2)) - 1 } else { !0 };
                let verdict: Result<(), (String, String)> = match &res {
                    Err(p) => Err((format!("random({}) then 64 x random({}) return", n1, n2), p.clone())),
                    Ok(ds) => {
                        let (mut ones, mut zeros) = (vec![0u64; w], vec![0u64; w]);
                        let mut bad = None;
                        for d in ds {
                            if !well_formed(n2, d) {
                                bad = Some((format!("well-formed draws of size {} after a draw of size {}", n2, n1), format!("[{}]", fmt_words(d))));
                            }
                            for i in 0..w.min(d.len()) {
                                ones[i] |= d[i];
                                zeros[i] |= !d[i] & mask;
                            }
                        }
                        let distinct: std::collections::BTreeSet<&Vec<u64>> = ds.iter().collect();
                        if bad.is_none() && (0..w).any(|i| ones[i] != mask || zeros[i] != mask) {
                            bad = Some((format!("over 64 draws of size {} (after one draw of size {}) every position takes both values", n2, n1), format!("never 1: {:x?}, never 0: {:x?}", (0..w).map(|i| !ones[i] & mask).collect::<Vec<_>>(), (0..w).map(|i| !zeros[i] & mask).collect::<Vec<_>>())));
                        }
                        let need = match n2 {
                            0 => 2,
                            1 => 3,
                            2 => 6,
                            _ => 12,
                        };
                        if bad.is_none() && distinct.len() < need {
                            bad = Some((format!("at least {} distinct tables among 64 draws of size {}", need, n2), format!("{} distinct", distinct.len())));
                        }
                        match bad {
                            Some(b) => Err(b),
                            None => Ok(()),
                        }
                    }
                };
                match verdict {
                    Ok(()) => {
                        l.nontrivial += (n1 != n2) as u64;
                        if let Ok(ds) = &res {
                            l.digest ^= engine::mix3(k, sd, engine::hash_words(&ds[63]));
                        }
                    }
                    Err(v) => l.violation(format!("hist|{}|{:02}|{:02}|{}", if st { "S" } else { "D" }, n1, n2, sd), "C19/random/degenerate-after-history", format!("bin=rng;kind=hist;ty={};n={};n1={};script={}", if st { "S" } else { "D" }, n2, n1, script_str(&s)), v.0, v.1),
                }
            }
            if k == total / 2 {
                l.sample(J::s(format!("bin=rng;kind=hist;n1={};n={}", n1, n2)));
            }
        }
    });
}

fn run_all(run: &Run) {
    histories(run, false);
    histories(run, true);
    fn ex<L: Tab>(run: &Run, st: bool, n: usize) {
        explore::<L>(run, st, n);
        threads::<L>(run, st, n);
    }
    for n in 0..=12usize {
        ex::<volute::Lut>(run, false, n);
        for_static!(n, ex(run, true, n));
    }
    // the dynamic type beyond the largest fixed-size alias
    for n in 13..=14usize {
        ex::<volute::Lut>(run, false, n);
    }
}

fn replay(path: &str) -> i32 {
    let text = match std::fs::read_to_string(path) {
        Ok(t) => t,
        Err(e) => {
            eprintln!("MACHINERY-ERROR {}", e);
            return 2;
        }
    };
    let j = match engine::json::parse(&text) {
        Ok(j) => j,
        Err(e) => {
            eprintln!("MACHINERY-ERROR {}", e);
            return 2;
        }
    };
    let case_s = j.get("case").and_then(|x| x.as_str()).unwrap_or("").to_string();
    let case = Case::parse(&case_s);
    let go = || -> Result<Verdict, String> {
        let st = case.get("ty")? == "S";
        let n = case.usize("n")?;
        match case.get("kind")? {
            "wf" => {
                let s = parse_script(case.get("script")?)?;
                fn f<L: Tab>(n: usize, s: &Script) -> Verdict {
                    wf_check::<L>(n, s).map(|_| ())
                }
                Ok(for_type!(st, n, f(n, &s)))
            }
            _ => {
                // aggregate verdicts: re-run the exploration of that size and type
                let mut r = Run::new("C19", Tier::Quick, 0);
                r.silent = true;
                fn ex<L: Tab>(run: &Run, st: bool, n: usize) {
                    explore::<L>(run, st, n);
                    threads::<L>(run, st, n);
                }
                for_type!(st, n, ex(&r, st, n));
                let v = r.viols.lock().unwrap();
                Ok(match v.first() {
                    Some(x) => Err((x.expected.clone(), x.observed.clone())),
                    None => Ok(()),
                })
            }
        }
    };
    match go() {
        Err(e) => {
            eprintln!("MACHINERY-ERROR {}", e);
            2
        }
        Ok(Ok(())) => {
            println!("REPLAY-OK property=C19 case={} (the recorded violation no longer reproduces)", case_s);
            0
        }
        Ok(Err((e, o))) => {
            println!("VIOLATION property=C19 replay={}", path);
            println!("  case:      {}", case_s);
            println!("  expected:  {}", e);
            println!("  observed:  {}", o);
            1
        }
    }
}

fn main() {
    engine::install_panic_hook();
    let args: Vec<String> = std::env::args().collect();
    let seed: u64 = std::env::var("VERIF_SEED").ok().and_then(|s| s.parse::<i64>().ok()).map(|x| x as u64).unwrap_or(0);
    match args.get(1).map(|s| s.as_str()) {
        Some("run") => {
            let tier = if args.get(2).map(|s| s.as_str()) == Some("thorough") { Tier::Thorough } else { Tier::Quick };
            engine::start_watchdog(tier);
            let mut r = Run::new("C19", tier, seed);
            r.silent = true;
            r.profile = "rng-shim";
            run_all(&r);
            print!("{}", engine::run_to_json(&r).dump());
        }
        Some("replay") if args.len() >= 3 => std::process::exit(replay(&args[2])),
        _ => {
            eprintln!("usage: lsx-rng run quick|thorough | lsx-rng replay <file>");
            std::process::exit(2);
        }
    }
}
