//! C04 — P/N/NPN canonization returns the orbit minimum, for every function and size.
//! C05 — the returned (permutation, mask) certificate maps the input to the result.
//!
//! One exploration, two oracles (selected by `Mode`):
//!  * walk exploration through hook H1: the swap/flip sequences the kernels were really given
//!    are replayed on the group model: every group element exactly once, closed cycle (C04);
//!  * end-to-end: the returned representative is the minimum of the orbit enumerated by the
//!    group model (lexicographic permutations, binary-counter polarities) (C04);
//!  * metamorphic: canon(T f) = canon(f) for each generator T, canon(canon f) = canon f (C04);
//!  * certificate: perm is a permutation, mask < 2^(n+1), apply(f, perm, mask) = result; P uses
//!    no complementation, N the identity permutation; also with the representative itself
//!    as input (C05).

use super::common::*;
use crate::api::Tab;
use crate::engine::json::J;
use crate::engine::{fmt_words, guarded, hash_words, Case, Local, Run};
use crate::model::alpha;
use crate::model::group::{self, apply, is_permutation, orbit_min, Grp};
use crate::model::tt::{nbits, TT};
use crate::{for_static, for_type};

#[derive(Clone, Copy, PartialEq, Eq)]
pub enum Mode {
    C04,
    C05,
}

impl Mode {
    fn id(self) -> &'static str {
        match self {
            Mode::C04 => "C04",
            Mode::C05 => "C05",
        }
    }
}

fn canon<L: Tab>(l: &L, g: Grp) -> (L, Vec<u8>, u32) {
    let n = l.t_nv();
    match g {
        Grp::P => {
            let (r, p) = l.t_p_canon();
            (r, p, 0)
        }
        Grp::N => {
            let (r, m) = l.t_n_canon();
            (r, (0..n as u8).collect(), m)
        }
        Grp::Npn => l.t_npn_canon(),
    }
}

fn case_str(st: bool, f: &TT, g: Grp, kind: &str, gen: usize) -> String {
    format!("ty={};n={};g={};f={};kind={};gen={}", tyname(st), f.n, g.name(), fmt_words(&f.w), kind, gen)
}

/// C04, by the book: the representative of f.
fn check_min<L: Tab>(f: &TT, g: Grp, known_min: Option<&TT>) -> Result<TT, (String, String)> {
    let r = guarded(|| canon::<L>(&mk_tt(f), g));
    let (rep, _, _) = match r {
        Err(p) => return fail(format!("{}_canonization terminates normally", g.name()), p),
        Ok(x) => x,
    };
    if rep.t_nv() != f.n || !wf(&rep) {
        return fail("a well-formed representative of the same size", show(&rep));
    }
    let min = match known_min {
        Some(m) => m.clone(),
        None => orbit_min(f, g).0,
    };
    if rep.t_blocks() == &min.w[..] {
        return Ok(min);
    }
    // disagreement with the numeric minimum: decide with the library's own ordering
    let lmin: L = mk_tt(&min);
    if lmin < rep {
        let (_, perm, mask, _) = orbit_min(f, g);
        return fail(format!("the smallest table of the orbit: {} (reached by perm={:?} mask={:#x})", show_tt(&min), perm, mask), show(&rep));
    }
    // the library orders differently from numeric order (C08's business): minimum under its own Ord
    let mut best: Option<L> = None;
    for t in group::orbit(f, g) {
        let l: L = mk_tt(&t);
        if best.as_ref().map(|b| l < *b).unwrap_or(true) {
            best = Some(l);
        }
    }
    let best = best.unwrap();
    if best.t_blocks() == rep.t_blocks() {
        Ok(TT { n: f.n, w: rep.t_blocks().to_vec() })
    } else {
        fail(format!("the smallest table of the orbit under the library's own ordering: {}", show(&best)), show(&rep))
    }
}

/// C05, by the book: the certificate returned with the canonical form of f.
/// Ok(None) when the call panics (that is C04's "terminates normally").
fn check_cert<L: Tab>(f: &TT, g: Grp) -> Result<Option<TT>, (String, String)> {
    let n = f.n;
    let r = guarded(|| canon::<L>(&mk_tt(f), g));
    let (rep, perm, mask) = match r {
        // no certificate at all: the statement requires one for every f, "also when f is
        // already its own representative" (termination as such is C04's clause)
        Err(p) => return fail(format!("{}_canonization returns a certificate (permutation, mask) for {}", g.name(), show_tt(f)), p),
        Ok(x) => x,
    };
    let rt = match abs(&rep) {
        Ok(t) => t,
        Err(e) => return fail("a well-formed canonical form", e),
    };
    if !is_permutation(&perm, n) {
        return fail(format!("perm is a permutation of 0..{}", n), format!("perm={:?} (canonical form {}, input {})", perm, show_tt(&rt), show_tt(f)));
    }
    if (mask as u64) >> (n + 1) != 0 {
        return fail(format!("mask has no bit above {}", n), format!("mask={:#x}", mask));
    }
    if g == Grp::N && perm != (0..n as u8).collect::<Vec<u8>>() {
        return fail("identity permutation for N-canonization", format!("{:?}", perm));
    }
    let img = apply(f, &perm, mask);
    if img != rt {
        return fail(
            format!("g(y) = f(x) ^ mask[n] with x[perm[i]] = y[i] ^ mask[i] equals the returned table {} ", show_tt(&rt)),
            format!("perm={:?} mask={:#x} maps the input {} to {}{}", perm, mask, show_tt(f), show_tt(&img), if &rt == f { " (the input is its own representative)" } else { "" }),
        );
    }
    Ok(Some(rt))
}

/// C04 metamorphic transition: canon(T f) == canon(f) for generator `gen`; gen == usize::MAX: idempotence.
fn check_meta<L: Tab>(f: &TT, g: Grp, gen: usize) -> Verdict {
    let gens = group::generators(f.n, g);
    let r = guarded(|| {
        let base = canon::<L>(&mk_tt(f), g).0;
        let other = if gen == usize::MAX {
            canon::<L>(&base, g).0
        } else {
            let (p, m) = &gens[gen];
            canon::<L>(&mk_tt(&apply(f, p, *m)), g).0
        };
        (base, other)
    });
    match r {
        Err(p) => fail("canonization terminates normally", p),
        Ok((a, b)) => {
            if a.t_blocks() != b.t_blocks() {
                if gen == usize::MAX {
                    return fail(format!("canon(canon(f)) = canon(f) = {}", show(&a)), show(&b));
                }
                return fail(format!("canon(T f) = canon(f) = {} for the generator T = {:?}", show(&a), gens[gen]), show(&b));
            }
            Ok(())
        }
    }
}

pub fn replay_mode(mode: Mode, case: &Case) -> Result<Verdict, String> {
    let st = parse_ty(case.get("ty")?)?;
    let n = case.usize("n")?;
    let kind = case.get("kind")?.to_string();
    if kind == "tour" {
        return super::xsize::replay(case, &|w, k, th| word_tour(mode, w, k, th));
    }
    if kind == "walk" {
        let g = Grp::from_name(case.get("g")?).ok_or("bad group")?;
        let r = Run::new("C04", crate::engine::Tier::Quick, 0);
        let mut r = r;
        r.silent = true;
        walk(&r, n, g);
        let v = r.viols.lock().unwrap();
        return Ok(match v.first() {
            Some(x) => Err((x.expected.clone(), x.observed.clone())),
            None => Ok(()),
        });
    }
    if kind == "histseq" {
        let r = Run::new(mode.id(), crate::engine::Tier::Quick, 0);
        let syms = history_symbols(&r);
        let mins: Vec<TT> = syms.iter().map(|(g, _, t)| orbit_min(t, *g).0).collect();
        let seq: Vec<usize> = case.get("seq")?.split('.').map(|x| x.parse::<usize>().unwrap_or(0)).collect();
        if seq.iter().any(|k| *k >= syms.len()) {
            return Err("history symbol out of range".into());
        }
        let res = std::thread::scope(|sc| sc.spawn(|| run_history::<volute::Lut>(mode, &syms, &mins, &seq, st)).join().unwrap_or_else(|_| Err((0, ("history thread returns".to_string(), "panic".to_string())))));
        return Ok(res.map_err(|(_, v)| v));
    }
    let g = Grp::from_name(case.get("g")?).ok_or("bad group")?;
    let f = TT::from_words(n, &case.words("f")?).ok_or("f malformed")?;
    let gen = case.get("gen")?.parse::<usize>().map_err(|e| e.to_string())?;
    fn go<L: Tab>(mode: Mode, f: &TT, g: Grp, kind: &str, gen: usize) -> Verdict {
        match (mode, kind) {
            (Mode::C04, "canon") => check_min::<L>(f, g, None).map(|_| ()),
            (Mode::C04, "meta") => check_meta::<L>(f, g, gen),
            (Mode::C05, "history") => {
                // the recorded input within its repeated-call history f, !f, !f, f
                let nf = f.not();
                for x in [f, &nf, &nf, f, &nf] {
                    check_cert::<L>(x, g)?;
                }
                Ok(())
            }
            (Mode::C05, _) => check_cert::<L>(f, g).map(|_| ()),
            _ => Err(("harness".into(), "bad kind".into())),
        }
    }
    Ok(for_type!(st, n, go(mode, &f, g, &kind, gen)))
}

fn report(l: &mut Local, mode: Mode, st: bool, f: &TT, g: Grp, kind: &str, gen: usize, v: (String, String)) {
    let panic = v.1.starts_with("panic");
    let sig = match mode {
        Mode::C04 => {
            if panic {
                format!("C04/{}/panic/{}", g.name(), if f.n <= 1 { "n<=1" } else { "n>=2" })
            } else {
                format!("C04/{}/{}", g.name(), if kind == "meta" { "metamorphic" } else { "not-minimum" })
            }
        }
        Mode::C05 => {
            if v.1.contains("(the input is its own representative)") {
                format!("C05/{}/input-is-representative", g.name())
            } else if panic {
                format!("C05/{}/panic/{}", g.name(), if f.n <= 1 { "n<=1" } else { "n>=2" })
            } else {
                format!("C05/{}/certificate", g.name())
            }
        }
    };
    let key = format!("{:02}|{}|{}|{}|{:>40}|{}", f.n, tyname(st), g.name(), kind, fmt_words(&f.w), gen);
    l.violation(key, &sig, case_str(st, f, g, kind, gen), v.0, v.1);
}

/// All transitions from one function for one group.
fn explore_f<L: Tab>(l: &mut Local, mode: Mode, st: bool, f: &TT, g: Grp, meta: bool, known_min: Option<&TT>) {
    l.states += 1;
    let extra = meta || f.n <= 4;
    let hf = hash_words(&f.w);
    match mode {
        Mode::C04 => {
            match check_min::<L>(f, g, known_min) {
                Ok(min) => {
                    l.tr(hf, g as u64, hash_words(&min.w));
                    l.nontrivial += (min != *f) as u64;
                }
                Err(v) => {
                    l.transitions += 1;
                    l.validated += 1;
                    report(l, mode, st, f, g, "canon", 0, v);
                }
            }
            if meta {
                let ng = group::generators(f.n, g).len();
                for gen in (0..ng).chain([usize::MAX]) {
                    match check_meta::<L>(f, g, gen) {
                        Ok(()) => l.tr(hf, (gen as u64).wrapping_add(100), g as u64),
                        Err(v) => {
                            l.transitions += 1;
                            l.validated += 1;
                            report(l, mode, st, f, g, "meta", gen, v);
                        }
                    }
                }
            }
        }
        Mode::C05 => match check_cert::<L>(f, g) {
            Ok(Some(rep)) => {
                l.tr(hf, g as u64, hash_words(&rep.w));
                l.nontrivial += (rep != *f) as u64;
                l.outcome(if rep == *f { "input-already-representative" } else { "input-not-representative" });
                // inputs one generator away from the representative (the minimum is then met at the
                // very beginning or the very end of the walk), and a repeated-call history
                // f, !f, !f, f on this thread (results must not depend on earlier calls)
                if extra {
                    let mut inputs: Vec<(TT, &'static str)> = Vec::new();
                    for (p, m) in group::generators(f.n, g) {
                        inputs.push((apply(&rep, &p, m), "generator-image"));
                    }
                    // the history first (f has just been canonized): !f, !f, f, f
                    let nf = f.not();
                    inputs.insert(0, (f.clone(), "history"));
                    inputs.insert(0, (f.clone(), "history"));
                    inputs.insert(0, (nf.clone(), "history"));
                    inputs.insert(0, (nf, "history"));
                    for (x, kind) in inputs {
                        l.states += 1;
                        match check_cert::<L>(&x, g) {
                            Ok(r2) => l.tr(hash_words(&x.w), g as u64 + 10, hash_words(&r2.unwrap_or_else(|| x.clone()).w)),
                            Err(v) => {
                                l.transitions += 1;
                                l.validated += 1;
                                report(l, mode, st, &x, g, kind, 0, v);
                            }
                        }
                    }
                }
                if rep != *f {
                    // the representative itself as a new input
                    l.states += 1;
                    match check_cert::<L>(&rep, g) {
                        Ok(Some(r2)) => {
                            l.tr(hash_words(&rep.w), g as u64, hash_words(&r2.w));
                            l.outcome("input-already-representative");
                        }
                        Ok(None) => l.outcome("panicked (C04)"),
                        Err(v) => {
                            l.transitions += 1;
                            l.validated += 1;
                            report(l, mode, st, &rep, g, "canon", 0, v);
                        }
                    }
                }
            }
            Ok(None) => {
                l.transitions += 1;
                l.outcome("panicked (C04)");
            }
            Err(v) => {
                l.transitions += 1;
                l.validated += 1;
                report(l, mode, st, f, g, "canon", 0, v);
            }
        },
    }
}

// ------------------------------------------------------------------------------------
// Walk exploration (hook H1)

fn perm_rank(p: &[u8]) -> usize {
    // Lehmer code
    let n = p.len();
    let mut r = 0usize;
    for i in 0..n {
        let smaller = p[i + 1..].iter().filter(|x| **x < p[i]).count();
        r = r * (n - i) + smaller;
    }
    r
}

pub fn walk(run: &Run, n: usize, g: Grp) {
    run.section_seq(&format!("WALK {} n={}: sequences recorded by hook H1 replayed on the group model", g.name(), n), true, "every element of the group visited exactly once, every step index in range, closed cycle", |l| {
        volute::verif::clear();
        let called = guarded(|| {
            let z = volute::Lut::zero(n);
            let _ = canon::<volute::Lut>(&z, g);
        });
        let (swaps, flips) = volute::verif::last_sequences();
        let order = g.order(n);
        let viol = |l: &mut Local, e: String, o: String| {
            l.violation(format!("{:02}|walk|{}", n, g.name()), &format!("C04/walk/{}/{}", g.name(), if n <= 1 { "n<=1" } else { "n>=2" }), format!("ty=D;n={};g={};kind=walk", n, g.name()), e, o);
        };
        let (swaps, flips): (Vec<u8>, Vec<u8>) = match (g, swaps, flips) {
            (Grp::P, Some(s), None) => (s, vec![]),
            (Grp::N, None, Some(f)) => (vec![], f),
            (Grp::Npn, Some(s), Some(f)) => (s, f),
            // fewer than two variables: NPN has no permutation part and may be served by the N walk
            (Grp::Npn, None, Some(f)) if n <= 1 => (vec![], f),
            (_, None, None) if n <= 1 => {
                // handled without a walk; the complete end-to-end sweep of n<=1 decides it
                l.states += order;
                l.transitions += 1;
                l.validated += 1;
                l.sample(J::s(format!("n={} {}: no sequence used (size handled directly), panicked={}", n, g.name(), called.is_err())));
                return;
            }
            other => {
                run.machinery(format!("hook H1 recorded unexpected sequences for {} n={}: {:?}", g.name(), n, other));
                return;
            }
        };
        // replay exactly as the kernel applies them
        let mut seen = vec![false; order as usize];
        let mut perm: Vec<u8> = (0..n as u8).collect();
        let mut pol = 0usize;
        let mut out = 0usize;
        let mut visited = 0u64;
        let idx = |perm: &[u8], pol: usize, out: usize| -> usize {
            match g {
                Grp::P => perm_rank(perm),
                Grp::N => pol * 2 + out,
                Grp::Npn => (perm_rank(perm) << (n + 1)) + pol * 2 + out,
            }
        };
        let mut visit = |l: &mut Local, perm: &[u8], pol: usize, out: usize, step: usize| -> bool {
            let k = idx(perm, pol, out);
            visited += 1;
            l.transitions += 1;
            l.validated += 1;
            if seen[k] {
                l.violation(
                    format!("{:02}|walk|{}", n, g.name()),
                    &format!("C04/walk/{}/{}", g.name(), if n <= 1 { "n<=1" } else { "n>=2" }),
                    format!("ty=D;n={};g={};kind=walk", n, g.name()),
                    "every group element visited exactly once".into(),
                    format!("element perm={:?} polarity={:#x} out={} visited again at step {}", perm, pol, out, step),
                );
                return false;
            }
            seen[k] = true;
            true
        };
        let mut ok = true;
        let mut step = 0usize;
        let do_flips = |l: &mut Local, perm: &[u8], pol: &mut usize, out: &mut usize, step: &mut usize, ok: &mut bool, visit: &mut dyn FnMut(&mut Local, &[u8], usize, usize, usize) -> bool| {
            for f in &flips {
                if (*f as usize) >= n {
                    *ok = false;
                    l.violation(format!("{:02}|walk|{}", n, g.name()), &format!("C04/walk/{}/index", g.name()), format!("ty=D;n={};g={};kind=walk", n, g.name()), format!("flip index < {}", n), format!("{}", f));
                    return;
                }
                *pol ^= 1 << *f;
                for _ in 0..2 {
                    *out ^= 1;
                    *step += 1;
                    if !visit(l, perm, *pol, *out, *step) {
                        *ok = false;
                        return;
                    }
                }
            }
        };
        let flips_only = g == Grp::N || (g == Grp::Npn && n <= 1 && swaps.is_empty() && !flips.is_empty());
        match flips_only {
            true => do_flips(l, &perm, &mut pol, &mut out, &mut step, &mut ok, &mut visit),
            false => {
                for s in &swaps {
                    if (*s as usize) + 1 >= n {
                        ok = false;
                        viol(l, format!("swap index + 1 < {}", n), format!("{}", s));
                        break;
                    }
                    perm.swap(*s as usize, *s as usize + 1);
                    if g == Grp::P {
                        step += 1;
                        if !visit(l, &perm, 0, 0, step) {
                            ok = false;
                            break;
                        }
                    } else {
                        let p2 = perm.clone();
                        do_flips(l, &p2, &mut pol, &mut out, &mut step, &mut ok, &mut visit);
                        if !ok {
                            break;
                        }
                    }
                }
            }
        }
        l.states += visited;
        l.nontrivial += visited.saturating_sub(1);
        if ok {
            // the start (identity) is covered by the initialisation of `best`
            let id_k = idx(&(0..n as u8).collect::<Vec<u8>>(), 0, 0);
            let missing = (0..order as usize).filter(|k| !seen[*k] && *k != id_k).count();
            if missing > 0 {
                viol(l, format!("all {} group elements visited (the identity may be covered by the starting table)", order), format!("{} element(s) never visited; sequences: {} swaps, {} flips", missing, swaps.len(), flips.len()));
            } else if visited > 0 && (perm != (0..n as u8).collect::<Vec<u8>>() || pol != 0 || out != 0) {
                viol(l, "the walk is a closed cycle (ends at the identity)".into(), format!("ends at perm={:?} polarity={:#x} out={}", perm, pol, out));
            } else if visited > 0 && !seen[id_k] {
                viol(l, "the closed cycle visits the identity as its last step".into(), "identity not visited".into());
            }
        }
        if called.is_err() && n >= 2 {
            viol(l, "canonization of the constant-zero table terminates normally".into(), called.err().unwrap());
        }
        l.sample(J::s(format!("n={} {}: {} swaps, {} flips recorded; {} group elements visited of {}", n, g.name(), swaps.len(), flips.len(), visited, order)));
    });
}

// ------------------------------------------------------------------------------------
// Families

/// representatives (numeric orbit minima) of all 4-variable functions for a group
fn reps4(g: Grp) -> Vec<TT> {
    let n = 4;
    let mut label = vec![u32::MAX; 1 << 16];
    let mut reps = Vec::new();
    for x in 0..(1u32 << 16) {
        if label[x as usize] != u32::MAX {
            continue;
        }
        let f = TT::from_u64(n, x as u64);
        let mut m = x;
        let orb = group::orbit(&f, g);
        for t in &orb {
            m = m.min(t.w[0] as u32);
        }
        for t in &orb {
            label[t.w[0] as usize] = m;
        }
        reps.push(TT::from_u64(n, m as u64));
    }
    reps.sort_by(|a, b| a.cmp_num(b));
    reps.dedup();
    reps
}

fn embed(c0: &TT, c1: &TT) -> TT {
    // (n-1)-variable cofactors -> n-variable function with x_{n-1} selecting
    let n = c0.n + 1;
    let half = nbits(c0.n);
    TT::from_fn(n, |y| if y >= half { c1.get(y - half) } else { c0.get(y) })
}

fn family5(run: &Run, g: Grp) -> (Vec<TT>, Vec<TT>) {
    let r = reps4(g);
    let h: Vec<TT> = if run.thorough() {
        (0..(1u64 << 16)).map(|x| TT::from_u64(4, x)).collect()
    } else if r.len() <= 300 {
        let mut h = r.clone();
        h.extend(alpha::family(4, run.seed, 1));
        h
    } else {
        alpha::family(4, run.seed, 1)
    };
    (r, h)
}

fn family_large(n: usize, seed: u64, count: usize) -> Vec<TT> {
    // named + irregular word patterns + symmetric functions + low-weight boundary tables,
    // then cofactor-embeddings of the (n-1) family; truncated to `count` in this fixed order
    let mut v: Vec<TT> = Vec::new();
    let pats = alpha::word_patterns(n, seed, 0);
    v.extend(pats.iter().rev().take(3).cloned());
    v.extend(alpha::named(n));
    v.extend(alpha::low_weight(n, 0));
    v.extend(pats.iter().cloned());
    if n >= 1 {
        let sub = alpha::word_patterns(n - 1, seed, 0);
        let named = alpha::named(n - 1);
        for (i, a) in sub.iter().enumerate() {
            v.push(embed(a, &named[i % named.len()]));
            v.push(embed(&named[(i * 3) % named.len()], a));
        }
    }
    if n >= 1 {
        let sub = alpha::word_patterns(n - 1, seed, 0);
        for a in &sub {
            for b in &sub {
                if a != b {
                    v.push(embed(a, b));
                }
            }
        }
    }
    v.extend(alpha::word_patterns(n, seed, 1));
    if v.len() < count {
        v.extend(alpha::family(n, seed, 1));
    }
    if v.len() < count {
        v.extend(alpha::family(n, seed, 2));
    }
    let mut seen = std::collections::HashSet::new();
    v.retain(|t| seen.insert(t.w.clone()));
    v.truncate(count);
    v
}

// ------------------------------------------------------------------------------------

fn complete_small(run: &Run, mode: Mode, n: usize) {
    let size = 1u64 << nbits(n);
    run.section(
        &format!("{} SWEEP all tables n={} x P/N/NPN x Lut and Lut{}", mode.id(), n, n),
        true,
        "complete: every function, the three groups, both types; model orbit enumerated in full for every function",
        size,
        16,
        |r, l| {
            for x in r {
                let f = TT::from_u64(n, x);
                for g in Grp::ALL {
                    let min = if mode == Mode::C04 { Some(orbit_min(&f, g).0) } else { None };
                    fn ex<L: Tab>(l: &mut Local, mode: Mode, st: bool, f: &TT, g: Grp, meta: bool, m: Option<&TT>) {
                        explore_f::<L>(l, mode, st, f, g, meta, m)
                    }
                    let meta = n <= 3;
                    ex::<volute::Lut>(l, mode, false, &f, g, meta, min.as_ref());
                    for_static!(n, ex(l, mode, true, &f, g, meta, min.as_ref()));
                }
                if x == size / 3 {
                    l.sample(J::s(case_str(true, &f, Grp::Npn, "canon", 0)));
                }
            }
        },
    );
}

fn family5_section(run: &Run, mode: Mode, g: Grp) {
    let (r, h) = family5(run, g);
    let nh = h.len() as u64;
    let total = r.len() as u64 * nh;
    run.section(
        &format!("{} FAMILY n=5 {}: from_cofactors(r, h, 4), r in the {} {}-representatives of 4 variables, h in {} tables", mode.id(), g.name(), r.len(), g.name(), nh),
        run.thorough(),
        if run.thorough() { "every 5-variable orbit has a member in this family (any f can be moved inside its orbit so that its x4=0 cofactor is a representative): complete up to equivalence" } else { "h restricted to the representatives / the 4-variable alphabet" },
        total,
        256,
        |rg, l| {
            for idx in rg {
                let f = embed(&r[(idx / nh) as usize], &h[(idx % nh) as usize]);
                explore_f::<volute::Lut5>(l, mode, true, &f, g, false, None);
                if idx % 64 == 0 {
                    explore_f::<volute::Lut>(l, mode, false, &f, g, idx % 4096 == 0, None);
                }
                if idx == total / 2 {
                    l.sample(J::s(case_str(true, &f, g, "canon", 0)));
                }
            }
        },
    );
}

fn family_section(run: &Run, mode: Mode, n: usize, g: Grp, count: usize, meta_every: usize) {
    let fam = family_large(n, run.seed, count);
    let total = fam.len() as u64;
    run.section(
        &format!("{} FAMILY n={} {}: {} alphabet functions (named, low-weight, word patterns, cofactor embeddings)", mode.id(), n, g.name(), total),
        false,
        "enumerated family; full orbit enumerated by the model for each member",
        total,
        1,
        |r, l| {
            for k in r {
                let f = &fam[k as usize];
                fn ex<L: Tab>(l: &mut Local, mode: Mode, st: bool, f: &TT, g: Grp, meta: bool) {
                    explore_f::<L>(l, mode, st, f, g, meta, None)
                }
                // one even (fixed-size type) and one odd (dynamic type) member out of every `meta_every`
                let meta = meta_every > 0 && (k as usize) % meta_every.max(2) < 2;
                if k % 2 == 0 {
                    for_static!(n, ex(l, mode, true, f, g, meta));
                } else {
                    ex::<volute::Lut>(l, mode, false, f, g, meta);
                }
                if k == total / 2 {
                    l.sample(J::s(case_str(k % 2 == 0, f, g, "canon", 0)));
                }
            }
        },
    );
}

/// Small functions embedded in a large table: g(x_a, x_b, x_c) as a function of n variables,
/// for every 3-variable g and a set of ordered variable triples. All embeddings of one g are
/// P-equivalent (one model orbit minimum per g, and all must receive it); under N each
/// embedding has its own orbit. These tables tie on whole words under many group elements.
fn embedded_section(run: &Run, mode: Mode, n: usize, g: Grp) {
    let mut triples: Vec<[usize; 3]> = Vec::new();
    if run.thorough() {
        for a in 0..n {
            for b in 0..n {
                for c in 0..n {
                    if a != b && a != c && b != c {
                        triples.push([a, b, c]);
                    }
                }
            }
        }
    } else {
        for base in [[0usize, 1, 2], [n - 3, n - 2, n - 1], [0, 3, n - 1], [2, n - 2, n - 1]] {
            for p in group::permutations(3) {
                triples.push([base[p[0] as usize], base[p[1] as usize], base[p[2] as usize]]);
            }
        }
        triples.sort();
        triples.dedup();
    }
    let nt = triples.len() as u64;
    let embed = |gw: u64, tr: &[usize; 3]| TT::from_fn(n, |m| (gw >> (((m >> tr[0]) & 1) | (((m >> tr[1]) & 1) << 1) | (((m >> tr[2]) & 1) << 2))) & 1 != 0);
    run.section(
        &format!("{} EMBEDDED n={} {}: all 256 3-variable functions g(x_a,x_b,x_c) x {} ordered variable triples", mode.id(), n, g.name(), nt),
        false,
        "every 3-variable function embedded at the listed ordered triples (quick: all orders of 4 position sets; thorough: all n(n-1)(n-2)); P: one model orbit minimum per g shared by all its embeddings",
        256,
        1,
        |r, l| {
            for gw in r {
                let first = embed(gw, &triples[0]);
                let shared_min = if g == Grp::P && mode == Mode::C04 { Some(orbit_min(&first, g).0) } else { None };
                for (k, tr) in triples.iter().enumerate() {
                    let f = embed(gw, tr);
                    let own_min = if g == Grp::N && mode == Mode::C04 { Some(orbit_min(&f, g).0) } else { None };
                    let km = shared_min.as_ref().or(own_min.as_ref());
                    fn ex<L: Tab>(l: &mut Local, mode: Mode, st: bool, f: &TT, g: Grp, km: Option<&TT>) {
                        explore_f::<L>(l, mode, st, f, g, false, km)
                    }
                    if (k as u64 + gw) % 2 == 0 {
                        for_static!(n, ex(l, mode, true, &f, g, km));
                    } else {
                        ex::<volute::Lut>(l, mode, false, &f, g, km);
                    }
                }
                if gw == 0x1e {
                    l.sample(J::s(case_str(true, &embed(gw, &triples[0]), g, "canon", 0)));
                }
            }
        },
    );
}

// -------------------------------------------------------------------- same-word tours

fn tour_words(thorough: bool) -> Vec<u64> {
    let mut w: Vec<u64> = if thorough { (0..256u64).collect() } else { vec![0x00, 0x01, 0x03, 0x06, 0x07, 0x0f, 0x16, 0x17, 0x18, 0x19, 0x1b, 0x1e, 0x3c, 0x69, 0x6b, 0x7e, 0x80, 0xe8, 0xfe, 0xca, 0x96, 0xaa] };
    w.extend([0x8000u64, 0x6996, 0x1ee1, 0xfffe, 0x0001_0000, 0x8000_0000, 0x0116_6997]);
    w
}

const TOUR_WORDS: usize = 2;

fn word_tour_count(thorough: bool) -> usize {
    (tour_words(thorough).len() + TOUR_WORDS - 1) / TOUR_WORDS
}

/// The same table word canonized as a table of every size it fits (0..=6), every ordered
/// pair of sizes consecutively for each group, then every ordered pair of groups at each
/// size; both types alternate. Results must not depend on the previous call.
fn word_tour(mode: Mode, which: &str, k: usize, thorough: bool) -> Result<super::xsize::Tour, String> {
    if which != "words" {
        return Err(format!("unknown tour family {}", which));
    }
    let words: Vec<u64> = tour_words(thorough).into_iter().skip(k * TOUR_WORDS).take(TOUR_WORDS).collect();
    if words.is_empty() {
        return Err("no such tour".into());
    }
    let mut t = super::xsize::Tour::new(format!("words:{}", k));
    for w in words {
        let sizes: Vec<usize> = (0..=6usize).filter(|n| *n == 6 || w >> nbits(*n) == 0).collect();
        let npn_top = if thorough { 6 } else { 5 };
        let mut mins: std::collections::BTreeMap<(u8, usize), std::sync::Arc<TT>> = std::collections::BTreeMap::new();
        let mut seq: Vec<(Grp, usize)> = Vec::new();
        for g in [Grp::Npn, Grp::P, Grp::N] {
            let sz: Vec<usize> = sizes.iter().copied().filter(|n| g != Grp::Npn || *n <= npn_top).collect();
            for s in super::xsize::size_pairs(&sz) {
                seq.push((g, s));
            }
        }
        for s in &sizes {
            if *s <= npn_top {
                for g in [Grp::P, Grp::N, Grp::Npn, Grp::N, Grp::P, Grp::Npn, Grp::P] {
                    seq.push((g, *s));
                }
            }
        }
        let n3 = seq.len();
        let seq3: Vec<(Grp, usize)> = seq.iter().chain(seq.iter()).chain(seq.iter()).copied().collect();
        for (idx, (g, s)) in seq3.into_iter().enumerate() {
            let f = TT::from_u64(s, w);
            let min = if mode == Mode::C04 { Some(mins.entry((g as u8, s)).or_insert_with(|| std::sync::Arc::new(orbit_min(&f, g).0)).clone()) } else { None };
            // first pass: the types alternate; second: the alias only; third: the dynamic table only
            let st = if idx < n3 { idx % 2 == 0 } else { idx < 2 * n3 };
            t.push(format!("{} {}_canonization n={} [{:x}]", if st { "LutN" } else { "Lut" }, g.name(), s, w), move || {
                fn one<L: Tab>(mode: Mode, f: &TT, g: Grp, min: Option<&TT>) -> Verdict {
                    match mode {
                        Mode::C04 => check_min::<L>(f, g, min).map(|_| ()),
                        Mode::C05 => check_cert::<L>(f, g).map(|_| ()),
                    }
                }
                for_type!(st, f.n, one(mode, &f, g, min.as_deref()))
            });
        }
    }
    Ok(t)
}

fn word_histories(run: &Run, mode: Mode) {
    let th = run.thorough();
    super::xsize::run_tours(run, mode.id(), "words (the same table word canonized at consecutive sizes and by consecutive groups)", "the words of 3-variable NPN class representatives and some 4- and 5-variable words (thorough: all 256) as tables of every size 0..=6 they fit: every ordered pair of sizes per group (NPN to n=5, thorough 6), every ordered pair of groups per size", word_tour_count(th), &|k| word_tour(mode, "words", k, th).unwrap());
}

fn symmetric_section(run: &Run, n: usize) {
    // C05: functions with the largest stabilisers
    let cs: Vec<usize> = if n <= 6 || run.thorough() {
        (0..(1usize << (n + 1))).collect()
    } else {
        let mut v = Vec::new();
        for k in 0..=n {
            v.push(1usize << k);
            v.push(((1usize << (n + 1)) - 1) & !((1usize << k) - 1));
        }
        v.push(0x5555_5555 & ((1 << (n + 1)) - 1));
        v.sort();
        v.dedup();
        v
    };
    let total = cs.len() as u64;
    run.section(&format!("C05 SYMMETRIC n={}: symmetric(c) for {} count masks x P/N/NPN", n, total), n <= 6 || run.thorough(), "functions with non-trivial symmetry groups (several valid certificates exist; any is accepted)", total, 1, |r, l| {
        for k in r {
            let c = cs[k as usize];
            let f = TT::from_fn(n, |m| (c >> alpha::popcount(m)) & 1 != 0);
            for g in Grp::ALL {
                fn ex<L: Tab>(l: &mut Local, st: bool, f: &TT, g: Grp) {
                    explore_f::<L>(l, Mode::C05, st, f, g, false, None)
                }
                if k % 2 == 0 {
                    for_static!(n, ex(l, true, &f, g));
                } else {
                    ex::<volute::Lut>(l, false, &f, g);
                }
            }
        }
    });
}

/// Call histories mixing sizes and groups on ONE thread (each history on its own fresh
/// thread): a canonization must return the same representative and a valid certificate
/// whatever was canonized before on that thread.
fn history_symbols(run: &Run) -> Vec<(Grp, usize, TT)> {
    let mut v = Vec::new();
    for n in [3usize, 7, 8] {
        let pats = alpha::word_patterns(n, run.seed, 0);
        let t = TT::pointwise(&pats[pats.len() - 1], &TT::from_fn(n, |m| (m >> (n - 1)) & 1 != 0 || m % 3 == 0), |a, b| a && b);
        for g in Grp::ALL {
            if n == 8 && g == Grp::Npn && !run.thorough() {
                continue;
            }
            v.push((g, n, t.clone()));
        }
    }
    v
}

fn run_history<L3: Tab>(mode: Mode, syms: &[(Grp, usize, TT)], mins: &[TT], seq: &[usize], st: bool) -> Result<(), (usize, (String, String))> {
    let _ = std::marker::PhantomData::<L3>;
    for (pos, k) in seq.iter().enumerate() {
        let (g, n, t) = &syms[*k];
        fn one<L: Tab>(mode: Mode, t: &TT, g: Grp, min: &TT) -> Verdict {
            match mode {
                Mode::C04 => check_min::<L>(t, g, Some(min)).map(|_| ()),
                Mode::C05 => check_cert::<L>(t, g).map(|_| ()),
            }
        }
        let v = for_type!(st, *n, one(mode, t, *g, &mins[*k]));
        if let Err(e) = v {
            return Err((pos, e));
        }
    }
    Ok(())
}

fn histories(run: &Run, mode: Mode) {
    let syms = history_symbols(run);
    let mins: Vec<TT> = crate::engine::par_map(&syms, |(g, _, t)| orbit_min(t, *g).0);
    let k = syms.len() as u64;
    let total = k * k * k;
    run.section(&format!("{} HISTORIES: all {} call sequences of length 3 over {} (group, size) symbols (sizes 3, 7, 8), each on a fresh thread, both types", mode.id(), total, k), false, "results must not depend on what was canonized earlier on the thread (per-thread caches of sequences or results)", total, 1, |r, l| {
        for idx in r {
            let seq = [(idx / (k * k)) as usize, ((idx / k) % k) as usize, (idx % k) as usize];
            for st in [false, true] {
                let (s2, m2) = (&syms, &mins);
                let res = std::thread::scope(|sc| sc.spawn(move || run_history::<volute::Lut>(mode, s2, m2, &seq, st)).join().unwrap_or_else(|_| Err((0, ("history thread returns".to_string(), "panic outside the subject".to_string())))));
                l.states += 1;
                l.transitions += 3;
                l.validated += 3;
                match res {
                    Ok(()) => {
                        l.nontrivial += (seq[0] != seq[2] || seq[1] != seq[2]) as u64;
                        l.digest ^= crate::engine::mix3(idx, st as u64, 3);
                    }
                    Err((pos, v)) => {
                        let names: Vec<String> = seq.iter().map(|i| format!("{}{}", syms[*i].0.name(), syms[*i].1)).collect();
                        let sig = format!("{}/history/{}", mode.id(), syms[seq[pos]].0.name());
                        l.violation(format!("hist|{}|{}|{}", names.join("-"), st as u8, pos), &sig, format!("ty={};n={};g={};f={};kind=histseq;gen=0;seq={}", tyname(st), syms[seq[pos]].1, syms[seq[pos]].0.name(), fmt_words(&syms[seq[pos]].2.w), seq.iter().map(|x| x.to_string()).collect::<Vec<_>>().join(".")), format!("[call {} of the history {}] {}", pos + 1, names.join(", "), v.0), v.1);
                    }
                }
            }
            if idx == total / 2 {
                l.sample(J::s(format!("history {:?} over symbols {:?}", seq, syms.iter().map(|s| format!("{}{}", s.0.name(), s.1)).collect::<Vec<_>>())));
            }
        }
    });
}

pub fn run_mode(run: &Run, mode: Mode) {
    if let Err(e) = group::self_check() {
        run.machinery(format!("group model self-check: {}", e));
        return;
    }
    match mode {
        Mode::C04 => {
            run.set_rule("state = one function (per group and type) / one group element in the walk; transition = a canonization call (or one step of the recorded walk); non-trivial = the representative differs from the input (walk: every step)");
            run.assume("reference model: model::group (lexicographic permutations, binary-counter polarities, certificate action by index map); orbit minimum in numeric order, re-decided with the library's own Ord on any disagreement");
            run.assume("hook H1 records the sequences passed to the walk kernels; the end-to-end oracle does not depend on it");
        }
        Mode::C05 => {
            run.set_rule("state = one function (per group and type), plus its returned representative as a further input; transition = a canonization call; the certificate is applied by an independent evaluator; non-trivial = input not already its representative; outcomes = how many inputs were / were not already canonical");
            run.assume("certificate convention of the statement: g(y) = f(x) ^ mask[n], x[perm[i]] = y[i] ^ mask[i]; any valid certificate is accepted");
        }
    }
    let t = run.thorough();
    if mode == Mode::C04 {
        for n in 0..=8usize {
            for g in Grp::ALL {
                walk(run, n, g);
            }
        }
        for n in 9..=10usize {
            walk(run, n, Grp::P);
            walk(run, n, Grp::N);
        }
    }
    for n in 0..=4usize {
        complete_small(run, mode, n);
    }
    for g in Grp::ALL {
        family5_section(run, mode, g);
    }
    // (count, metamorphic every k-th) per size and group
    let plan: Vec<(usize, Grp, usize, usize)> = if t {
        vec![(6, Grp::P, 20000, 50), (6, Grp::N, 20000, 50), (6, Grp::Npn, 20000, 100), (7, Grp::P, 3000, 50), (7, Grp::N, 3000, 50), (7, Grp::Npn, 500, 25), (8, Grp::P, 600, 50), (8, Grp::N, 2000, 50), (8, Grp::Npn, 60, 10)]
    } else {
        vec![(6, Grp::P, 1500, 50), (6, Grp::N, 1500, 50), (6, Grp::Npn, 1000, 100), (7, Grp::P, 400, 40), (7, Grp::N, 600, 40), (7, Grp::Npn, 96, 12), (8, Grp::P, 64, 16), (8, Grp::N, 200, 25), (8, Grp::Npn, 16, 4)]
    };
    for (n, g, count, meta) in plan {
        // C04: metamorphic generator transitions every `meta`-th member; C05: generator images of the
        // representative and the repeated-call history on every 4th member (every 2nd for n = 8)
        family_section(run, mode, n, g, count, if mode == Mode::C04 { meta } else if n >= 8 { 2 } else { 4 });
    }
    for n in [7usize, 8] {
        for g in [Grp::P, Grp::N] {
            embedded_section(run, mode, n, g);
        }
    }
    histories(run, mode);
    word_histories(run, mode);
    if mode == Mode::C05 {
        for n in 0..=8usize {
            symmetric_section(run, n);
        }
    }
}

pub fn run(run: &Run) {
    run_mode(run, Mode::C04)
}

pub fn replay(case: &Case) -> Result<Verdict, String> {
    replay_mode(Mode::C04, case)
}

pub fn run_c05(run: &Run) {
    run_mode(run, Mode::C05)
}

pub fn replay_c05(case: &Case) -> Result<Verdict, String> {
    replay_mode(Mode::C05, case)
}
