//! The `all_functions` iterator driven through the whole `Iterator` interface, not only `next()`:
//! `nth`, `skip`, `step_by`, `take`, `size_hint`, `count`, `last`, and polls after the end.
//!
//! State = the table the iterator is positioned on (hook H2) or a fresh `all_functions`;
//! transition = one scripted call; oracle = a counter model (table + k, exhausted flag).
//! Used by C08 (the values), C02 (every yielded item is a well-formed table) and C10 (Lut and
//! LutN observe the same), each reporting under its own property.

use super::common::*;
use crate::api::{IterObs, IterOp, Tab};
use crate::engine::{fmt_words, guarded, hash_words, Run};
use crate::for_type;
use crate::model::alpha;
use crate::model::tt::{nbits, nwords, TT};

/// model position: Some(table to be yielded next) or exhausted
#[derive(Clone, Debug)]
struct Pos(Option<TT>);

/// table + k (numeric), None when it leaves 0..2^(2^n)
fn add(t: &TT, k: u128) -> Option<TT> {
    let n = t.n;
    let mut w = t.w.clone();
    let mut carry = k;
    for x in w.iter_mut() {
        let s = (*x as u128) + (carry & 0xffff_ffff_ffff_ffff);
        *x = s as u64;
        carry = (carry >> 64) + (s >> 64);
    }
    if carry != 0 {
        return None;
    }
    if n < 6 && (w[0] >> nbits(n)) != 0 {
        return None;
    }
    Some(TT { n, w })
}

/// number of items left when positioned on t, if it is at most `cap`
pub fn remaining(t: &TT, cap: u64) -> Option<u64> {
    // all-ones - t + 1
    let inv = t.not();
    if inv.w.iter().skip(1).any(|x| *x != 0) || inv.w[0] >= cap {
        return None;
    }
    Some(inv.w[0] + 1)
}

impl Pos {
    fn take(&mut self, skip: u128) -> Option<TT> {
        // consume `skip` items, then yield one
        let cur = self.0.take()?;
        let item = add(&cur, skip)?;
        self.0 = add(&item, 1);
        Some(item)
    }
}

fn show_item<L: Tab>(o: &Option<L>) -> String {
    match o {
        None => "None".into(),
        Some(x) => format!("Some({})", show(x)),
    }
}

fn show_model(o: &Option<TT>) -> String {
    match o {
        None => "None".into(),
        Some(x) => format!("Some({})", show_tt(x)),
    }
}

fn item_eq<L: Tab>(o: &Option<L>, m: &Option<TT>) -> bool {
    match (o, m) {
        (None, None) => true,
        (Some(x), Some(t)) => x.t_nv() == t.n && x.t_blocks() == &t.w[..],
        _ => false,
    }
}

pub fn script_str(s: &[IterOp]) -> String {
    s.iter()
        .map(|o| match o {
            IterOp::Next => "next".to_string(),
            IterOp::Nth(k) => format!("nth.{}", k),
            IterOp::SizeHint => "hint".to_string(),
            IterOp::SkipNext(k) => format!("skip.{}", k),
            IterOp::StepBy(a, b) => format!("step.{}.{}", a, b),
            IterOp::TakeCount(k) => format!("take.{}", k),
            IterOp::Count => "count".to_string(),
            IterOp::Last => "last".to_string(),
            IterOp::Max => "max".to_string(),
            IterOp::Min => "min".to_string(),
            IterOp::MaxOwned => "maxowned".to_string(),
            IterOp::MinOwned => "minowned".to_string(),
            IterOp::LastOwned => "lastowned".to_string(),
            IterOp::CountOwned => "countowned".to_string(),
        })
        .collect::<Vec<_>>()
        .join(",")
}

pub fn parse_script(s: &str) -> Result<Vec<IterOp>, String> {
    let mut v = Vec::new();
    for tok in s.split(',').filter(|t| !t.is_empty()) {
        let p: Vec<&str> = tok.split('.').collect();
        let a = |k: usize| -> Result<usize, String> { p.get(k).ok_or("missing argument".to_string())?.parse::<usize>().map_err(|e| e.to_string()) };
        v.push(match p[0] {
            "next" => IterOp::Next,
            "nth" => IterOp::Nth(a(1)?),
            "hint" => IterOp::SizeHint,
            "skip" => IterOp::SkipNext(a(1)?),
            "step" => IterOp::StepBy(a(1)?, a(2)?),
            "take" => IterOp::TakeCount(a(1)?),
            "count" => IterOp::Count,
            "last" => IterOp::Last,
            "max" => IterOp::Max,
            "min" => IterOp::Min,
            "maxowned" => IterOp::MaxOwned,
            "minowned" => IterOp::MinOwned,
            "lastowned" => IterOp::LastOwned,
            "countowned" => IterOp::CountOwned,
            _ => return Err(format!("bad iterator op {}", tok)),
        });
    }
    Ok(v)
}

/// The counter model, advanced one observation at a time.
struct ModelRun {
    pos: Pos,
    ended: bool,
    script: Vec<IterOp>,
}

impl ModelRun {
    fn step<L: Tab>(&mut self, k: usize, o: &IterObs<L>) -> Verdict {
        let script = &self.script;
        let op = &script[k];
        let at = format!("call {} ({}) of [{}]", k, script_str(&script[k..k + 1]), script_str(script));
        let pos = &mut self.pos;
        match (op, o) {
            (IterOp::Next, IterObs::Item(x)) | (IterOp::Nth(0), IterObs::Item(x)) | (IterOp::SkipNext(0), IterObs::Item(x)) => {
                let m = pos.take(0);
                if !item_eq(x, &m) {
                    return fail(format!("{}: {}{}", at, show_model(&m), if self.ended { " (the iterator has already returned None)" } else { "" }), show_item(x));
                }
                self.ended |= m.is_none();
            }
            (IterOp::Nth(j), IterObs::Item(x)) | (IterOp::SkipNext(j), IterObs::Item(x)) => {
                let m = pos.take(*j as u128);
                if !item_eq(x, &m) {
                    return fail(format!("{}: {} (the item {} positions further on, None past the last function)", at, show_model(&m), j), show_item(x));
                }
                self.ended |= m.is_none();
            }
            (IterOp::SizeHint, IterObs::Hint(lo, hi)) => {
                // the contract of size_hint: lo <= remaining <= hi
                let rem: Option<u128> = match &pos.0 {
                    None => Some(0),
                    Some(t) => {
                        if nwords(t.n) > 1 {
                            remaining(t, u64::MAX).map(|r| r as u128)
                        } else {
                            Some((1u128 << nbits(t.n)) - t.w[0] as u128)
                        }
                    }
                };
                if let Some(r) = rem {
                    if (*lo as u128) > r || hi.map(|h| (h as u128) < r).unwrap_or(false) {
                        return fail(format!("{}: bounds that contain the {} items left", at, r), format!("({}, {:?})", lo, hi));
                    }
                }
            }
            (IterOp::StepBy(s, t), IterObs::Items(v)) => {
                let mut want = Vec::new();
                for i in 0..*t {
                    let m = pos.take(if i == 0 { 0 } else { *s as u128 - 1 });
                    match m {
                        Some(x) => want.push(x),
                        None => {
                            self.ended = true;
                            break;
                        }
                    }
                }
                let okv = v.len() == want.len() && v.iter().zip(want.iter()).all(|(a, b)| a.t_nv() == b.n && a.t_blocks() == &b.w[..]);
                if !okv {
                    return fail(
                        format!("{}: {} items [{}]", at, want.len(), want.iter().map(|x| fmt_words(&x.w)).collect::<Vec<_>>().join(" ")),
                        format!("{} items [{}]", v.len(), v.iter().map(|x| fmt_words(x.t_blocks())).collect::<Vec<_>>().join(" ")),
                    );
                }
            }
            (IterOp::TakeCount(j), IterObs::Count(c)) => {
                let mut got = 0usize;
                for _ in 0..*j {
                    if pos.take(0).is_none() {
                        self.ended = true;
                        break;
                    }
                    got += 1;
                }
                if got != *c {
                    return fail(format!("{}: {}", at, got), format!("{}", c));
                }
            }
            (IterOp::Count, IterObs::Count(c)) => {
                let r = match &pos.0 {
                    None => 0,
                    Some(t) => remaining(t, 1 << 40).ok_or(("harness".to_string(), "count scripted with many items left".to_string()))?,
                };
                pos.0 = None;
                self.ended = true;
                if r as usize != *c {
                    return fail(format!("{}: {} (the items left)", at, r), format!("{}", c));
                }
            }
            (IterOp::CountOwned, IterObs::Count(c)) => {
                let r = match &pos.0 {
                    None => 0,
                    Some(t) => remaining(t, 1 << 40).ok_or(("harness".to_string(), "count scripted with many items left".to_string()))?,
                };
                pos.0 = None;
                self.ended = true;
                if r as usize != *c {
                    return fail(format!("{}: {} (the items left)", at, r), format!("{}", c));
                }
            }
            (IterOp::Min, IterObs::Item(x)) | (IterOp::MinOwned, IterObs::Item(x)) => {
                // the items left are increasing: the minimum is the next one
                let m = pos.0.clone();
                pos.0 = None;
                self.ended = true;
                if !item_eq(x, &m) {
                    return fail(format!("{}: {} (the smallest item left, None when exhausted)", at, show_model(&m)), show_item(x));
                }
            }
            (IterOp::Last, IterObs::Item(x)) | (IterOp::LastOwned, IterObs::Item(x)) | (IterOp::Max, IterObs::Item(x)) | (IterOp::MaxOwned, IterObs::Item(x)) => {
                let m = match &pos.0 {
                    None => None,
                    Some(t) => Some(alpha::tt_words(t.n, vec![!0u64; nwords(t.n)])),
                };
                pos.0 = None;
                self.ended = true;
                if !item_eq(x, &m) {
                    return fail(format!("{}: {} (the all-ones table, or None when exhausted)", at, show_model(&m)), show_item(x));
                }
            }
            _ => return Err(("harness".into(), format!("observation shape mismatch at {}", at))),
        }
        Ok(())
    }
}

/// does the call walk the iterator item by item for a number of steps only the model bounds?
fn walks(op: &IterOp) -> bool {
    match op {
        IterOp::Count | IterOp::Last | IterOp::Max | IterOp::Min | IterOp::MaxOwned | IterOp::MinOwned | IterOp::LastOwned | IterOp::CountOwned => true,
        IterOp::Nth(k) | IterOp::SkipNext(k) | IterOp::TakeCount(k) => *k > 4096,
        IterOp::StepBy(s, _) => *s > 4096,
        _ => false,
    }
}

/// seconds a single scripted call may take before it is reported as not terminating (the
/// model bounds every scripted walk by 2^16 items)
const CALL_TIMEOUT_S: u64 = 20;

/// calls abandoned so far; after a few, further walking scripts are skipped (each abandoned
/// call keeps a core busy until the process exits, and the violation is already established)
static ABANDONED: std::sync::atomic::AtomicUsize = std::sync::atomic::AtomicUsize::new(0);

/// Run `script` on the subject iterator positioned on `start` (None: fresh all_functions(n))
/// in lock-step with the model: every observation is compared as soon as it is made and the
/// script stops at the first disagreement, so no call is ever made on an iterator that has
/// visibly departed from the model. Scripts containing a walking call run on a helper thread
/// with a per-call timeout: an iterator whose hidden state has departed (e.g. one that
/// restarts after the end) would otherwise walk 2^(2^n) items.
pub fn check_script<L: Tab>(n: usize, start: Option<&TT>, script: &[IterOp]) -> Verdict {
    let mut model = ModelRun { pos: Pos(Some(start.cloned().unwrap_or_else(|| TT::zero(n)))), ended: false, script: script.to_vec() };
    if !script.iter().any(walks) {
        let mut verdict: Verdict = Ok(());
        let r = guarded(|| {
            let s: Option<L> = start.map(|t| mk_tt::<L>(t));
            L::t_iter_script(n, s.as_ref(), script, &mut |k, o| {
                verdict = model.step(k, &o);
                verdict.is_ok()
            })
        });
        return match r {
            Err(p) => fail(format!("the calls [{}] on the iterator return normally", script_str(script)), p),
            Ok(()) => verdict,
        };
    }
    if ABANDONED.load(std::sync::atomic::Ordering::SeqCst) >= 6 {
        return Ok(());
    }
    use std::sync::mpsc;
    enum Msg<L> {
        Obs(usize, IterObs<L>),
        Done(Result<(), String>),
    }
    let (tx, rx) = mpsc::channel::<Msg<L>>();
    let (go_tx, go_rx) = mpsc::channel::<bool>();
    let sc = script.to_vec();
    let st = start.cloned();
    std::thread::spawn(move || {
        let tx2 = tx.clone();
        let r = guarded(move || {
            let s: Option<L> = st.as_ref().map(|t| mk_tt::<L>(t));
            L::t_iter_script(n, s.as_ref(), &sc, &mut |k, o| {
                if tx2.send(Msg::Obs(k, o)).is_err() {
                    return false;
                }
                go_rx.recv().unwrap_or(false)
            })
        });
        let _ = tx.send(Msg::Done(r));
    });
    let mut expect_k = 0usize;
    loop {
        match rx.recv_timeout(std::time::Duration::from_secs(CALL_TIMEOUT_S)) {
            Ok(Msg::Obs(k, o)) => {
                let v = model.step(k, &o);
                expect_k = k + 1;
                if v.is_err() {
                    let _ = go_tx.send(false);
                    return v;
                }
                let _ = go_tx.send(true);
            }
            Ok(Msg::Done(Ok(()))) => return Ok(()),
            Ok(Msg::Done(Err(p))) => return fail(format!("the calls [{}] on the iterator return normally", script_str(script)), p),
            Err(_) => {
                ABANDONED.fetch_add(1, std::sync::atomic::Ordering::SeqCst);
                let k = expect_k.min(script.len() - 1);
                return fail(
                    format!("call {} ({}) of [{}] returns (the model bounds it by 2^16 items)", k, script_str(&script[k..k + 1]), script_str(script)),
                    format!("no result within {} s: the iterator does not terminate (abandoned on a helper thread)", CALL_TIMEOUT_S),
                );
            }
        }
    }
}

/// The script alphabet from a position with `rem` items left (None: more than 2^20).
/// Every script ends with polls after the end where the end is reachable.
pub fn scripts(rem: Option<u64>, pos_value: Option<u64>, thorough: bool) -> Vec<Vec<IterOp>> {
    use IterOp::*;
    let mut first: Vec<IterOp> = vec![Next, Nth(0), Nth(1), Nth(2), Nth(3), Nth(63), Nth(64), Nth(255), SkipNext(1), SkipNext(5), SizeHint, StepBy(1, 3), StepBy(2, 3), StepBy(16, 4), StepBy(256, 3), TakeCount(0), TakeCount(3)];
    let mut big: Vec<IterOp> = Vec::new();
    if let Some(r) = rem {
        let r = r as usize;
        for k in [r.saturating_sub(2), r.saturating_sub(1), r, r + 1, r + 2, usize::MAX, usize::MAX - 1, usize::MAX - r, usize::MAX - r + 1, (usize::MAX - r).wrapping_add(2), 1usize << 63, (1usize << 32) - 1, 1usize << 32] {
            big.push(Nth(k));
        }
        for k in [r.saturating_sub(1), r, r + 1, usize::MAX] {
            big.push(SkipNext(k));
            big.push(TakeCount(k));
        }
        if let Some(v) = pos_value {
            // skip counts that wrap the table word itself (v + k + 1 = 2^64) or land on it again
            let v = v as usize;
            for k in [0usize.wrapping_sub(v), 0usize.wrapping_sub(v).wrapping_sub(1), 0usize.wrapping_sub(v).wrapping_add(1), usize::MAX - v] {
                big.push(Nth(k));
            }
        }
        big.push(Count);
        big.push(Last);
        big.push(Max);
        big.push(Min);
        big.push(MaxOwned);
        big.push(MinOwned);
        big.push(LastOwned);
        big.push(CountOwned);
        for s in [r.saturating_sub(1).max(1), r.max(1), r + 1, usize::MAX] {
            big.push(StepBy(s, 3));
        }
    }
    first.extend(big.iter().copied());
    first.sort_by_key(|o| script_str(&[*o]));
    first.dedup();
    let mut out: Vec<Vec<IterOp>> = Vec::new();
    let tail = [Next, Next, Nth(0), SizeHint, Next];
    for a in &first {
        let mut s = vec![*a];
        s.extend_from_slice(&tail);
        out.push(s);
    }
    // depth 2: a small advance, then every call (state after an advance is a different object
    // state from a freshly positioned iterator only if the iterator caches something)
    let pre: &[IterOp] = if thorough { &[Next, Nth(1), Nth(2), StepBy(2, 2), SizeHint, SkipNext(1)] } else { &[Next, Nth(1), SizeHint] };
    for p in pre {
        let used: u64 = match p {
            Next => 1,
            Nth(k) => *k as u64 + 1,
            SkipNext(k) => *k as u64 + 1,
            StepBy(s, t) => ((*s as u64) * (*t as u64 - 1)) + 1,
            _ => 0,
        };
        let rem2 = rem.map(|r| r.saturating_sub(used));
        let second: Vec<IterOp> = match rem2 {
            // already at the end: only polls (a long walking call adds nothing and would not be bounded by the model);
            // the reductions of a drained iterator return at once on a correct one
            Some(0) => vec![Next, Nth(0), Nth(1), SizeHint, SkipNext(1), TakeCount(2), StepBy(2, 2), MaxOwned, MinOwned, LastOwned, CountOwned, Max, Min],
            Some(r) => {
                let r = r as usize;
                let mut v = vec![Next, Nth(0), Nth(1), Nth(r.saturating_sub(1)), Nth(r), Nth(r + 1), Nth(usize::MAX), Nth(usize::MAX - 1), Nth(usize::MAX - r), Nth(usize::MAX - used as usize), Nth((usize::MAX - used as usize).wrapping_add(1)), SkipNext(r), SkipNext(usize::MAX), Count, Last, StepBy(r.max(1), 3), SizeHint, MaxOwned, MinOwned, LastOwned, CountOwned];
                if let Some(pv) = pos_value {
                    let v2 = pv.wrapping_add(used) as usize;
                    v.push(Nth(0usize.wrapping_sub(v2)));
                    v.push(Nth(0usize.wrapping_sub(v2).wrapping_sub(1)));
                    v.push(Nth(usize::MAX - v2));
                }
                v
            }
            None => vec![Next, Nth(0), Nth(1), Nth(5), SkipNext(2), StepBy(3, 3), SizeHint],
        };
        for b in second {
            let mut s = vec![*p, b];
            s.extend_from_slice(&tail[..3]);
            out.push(s);
        }
    }
    out
}

/// start tables: every table for n <= 3; otherwise the first and last few, carries across
/// half-words and words, and tables within reach of the end
pub fn starts(n: usize, thorough: bool) -> Vec<TT> {
    if n <= 3 {
        return (0..(1u64 << nbits(n))).map(|x| TT::from_u64(n, x)).collect();
    }
    let nw = nwords(n);
    let mut v = Vec::new();
    let near = if thorough { 70 } else { 20 };
    for d in 0..near {
        v.push({
            let mut w = vec![0u64; nw];
            w[0] = d;
            w
        });
        // all-ones minus d
        let mut w = vec![!0u64; nw];
        w[0] = !0u64 - d;
        v.push(w);
        // low word all ones minus d under upper words that are not all ones: the jump carries
        if nw > 1 {
            let mut w = vec![0x0123_4567_89ab_cdefu64; nw];
            w[0] = !0u64 - d;
            v.push(w.clone());
            w[1] = !0u64;
            v.push(w);
        }
        if n < 6 {
            let top = (1u64 << nbits(n)) - 1;
            v.push(vec![top - d]);
            v.push(vec![(top >> 1) - d]);
        } else {
            v.push({
                let mut w = vec![0u64; nw];
                w[0] = 0xffff_ffff - d;
                w
            });
        }
    }
    let mut out: Vec<TT> = v.into_iter().map(|w| alpha::tt_words(n, w)).collect();
    out.sort_by(|a, b| a.w.iter().rev().cmp(b.w.iter().rev()));
    out.dedup();
    out
}

/// (start table, script) list for size n, hooked starts; plus scripts on a fresh all_functions
pub fn cases(n: usize, thorough: bool) -> Vec<(Option<TT>, Vec<IterOp>)> {
    let mut out = Vec::new();
    let fresh_rem = if n <= 4 { Some(1u64 << nbits(n)) } else { None };
    for s in scripts(fresh_rem, Some(0), thorough) {
        out.push((None, s));
    }
    for t in starts(n, thorough) {
        let rem = remaining(&t, 1 << 12);
        let pv = if nwords(n) == 1 { Some(t.w[0]) } else { None };
        for s in scripts(rem, pv, thorough) {
            out.push((Some(t.clone()), s));
        }
    }
    out
}

pub fn case_str(st: bool, n: usize, start: &Option<TT>, script: &[IterOp]) -> String {
    format!("ty={};kind=iterscript;n={};start={};script={}", tyname(st), n, start.as_ref().map(|t| fmt_words(&t.w)).unwrap_or_else(|| "fresh".into()), script_str(script))
}

pub fn replay_case<L: Tab>(n: usize, start: &str, script: &str) -> Result<Verdict, String> {
    let sc = parse_script(script)?;
    let st = if start == "fresh" { None } else { Some(TT::from_words(n, &crate::engine::parse_words(start)?).ok_or("start not well-formed")?) };
    Ok(check_script::<L>(n, st.as_ref(), &sc))
}

/// Differential form for C10: the dynamic table and the alias must observe the same. Both
/// are run against the model (which also keeps every call bounded); they differ iff exactly
/// one departs from it, or both depart differently.
pub fn diff_script<S: Tab>(n: usize, start: Option<&TT>, script: &[IterOp]) -> Verdict {
    let d = check_script::<volute::Lut>(n, start, script);
    let s = check_script::<S>(n, start, script);
    match (d, s) {
        (Ok(()), Ok(())) => Ok(()),
        (Err(x), Err(y)) if x == y => Ok(()),
        (Err(x), _) if x.0 == "harness" => Err(x),
        (_, Err(y)) if y.0 == "harness" => Err(y),
        (Ok(()), Err(y)) => fail(format!("the calls [{}] observe the same on Lut{} as on Lut (where: {})", script_str(script), n, y.0), y.1),
        (Err(x), Ok(())) => fail(format!("the calls [{}] observe the same on Lut as on Lut{} (where: {})", script_str(script), n, x.0), x.1),
        (Err(x), Err(y)) => fail(format!("the calls [{}] observe the same on Lut{} as on Lut: {}", script_str(script), n, x.1), y.1),
    }
}

fn sec<L: Tab>(run: &Run, prop: &str, st: bool, n: usize) {
    let cs = cases(n, run.thorough());
    let prof = run.profile;
    let diff = prop == "C10";
    if diff && !st {
        return;
    }
    run.section(
        &format!("ITER adaptors n={} {} ({} profile)", n, if diff { format!("Lut vs {}", L::tname(n)) } else { L::tname(n) }, prof),
        false,
        &format!("{} (position, script) cases: fresh all_functions and hooked positions (all tables n<=3; first/last tables, word and half-word carries above) x scripts of next/nth/skip/step_by/take/size_hint/count/last (skip counts 0..3, 63, 64, 255, items-left-1..+2, usize::MAX-..; depth 2 after a small advance) followed by polls after the end; oracle = counter model{}", cs.len(), if diff { ", and Lut vs LutN observation equality" } else { "" }),
        cs.len() as u64,
        16,
        |r, l| {
            for k in r {
                let (start, script) = &cs[k as usize];
                l.states += 1;
                let beyond = script.iter().any(|o| !matches!(o, IterOp::Next | IterOp::SizeHint));
                l.nontrivial += beyond as u64;
                let v = if diff { diff_script::<L>(n, start.as_ref(), script) } else { check_script::<L>(n, start.as_ref(), script) };
                match v {
                    Ok(()) => l.tr(start.as_ref().map(|t| hash_words(&t.w)).unwrap_or(0), k, script.len() as u64),
                    Err(v) => {
                        l.transitions += 1;
                        l.validated += 1;
                        let kind = if script.iter().any(|o| matches!(o, IterOp::Nth(_) | IterOp::SkipNext(_) | IterOp::StepBy(_, _))) { "nth-skip-step" } else { "next-take-count-last" };
                        let sig = format!("{}/{}/iterator/{}", prop, if st { "LutN" } else { "Lut" }, kind);
                        let key = format!("{:02}|{}|iterscript|{}|{:03}|{}|{}", n, tyname(st), prof, script.len(), start.as_ref().map(|t| fmt_words(&t.w)).unwrap_or_else(|| "fresh".into()), script_str(script));
                        l.violation(key, &sig, format!("{};prof={}", case_str(st, n, start, script), prof), v.0, v.1);
                    }
                }
                if k == 7 {
                    l.sample(crate::engine::json::J::s(case_str(st, n, start, script)));
                }
            }
        },
    );
}

/// Sections "ITER adaptors" for sizes 0..=top, both types, reported under `prop`.
pub fn run_sections(run: &Run, prop: &str, top: usize) {
    for n in 0..=top {
        for st in [false, true] {
            for_type!(st, n, sec(run, prop, st, n));
        }
    }
}

pub fn replay(prop: &str, case: &crate::engine::Case) -> Result<Verdict, String> {
    let st = parse_ty(case.get("ty")?)?;
    let n = case.usize("n")?;
    let start = case.get("start")?.to_string();
    let script = case.get("script")?.to_string();
    fn go<L: Tab>(n: usize, start: &str, script: &str, diff: bool) -> Result<Verdict, String> {
        if diff {
            let sc = parse_script(script)?;
            let stt = if start == "fresh" { None } else { Some(TT::from_words(n, &crate::engine::parse_words(start)?).ok_or("start not well-formed")?) };
            return Ok(diff_script::<L>(n, stt.as_ref(), &sc));
        }
        replay_case::<L>(n, start, script)
    }
    let diff = prop == "C10";
    for_type!(st, n, go(n, &start, &script, diff))
}
