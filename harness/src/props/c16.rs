//! C16 — Display of cubes and two-level forms is a formula denoting the same function.

use super::common::*;
use crate::engine::json::J;
use crate::engine::{guarded, Case, Local, Run};
use crate::model::cube::{assignments, parse_formula, Formula};
use std::collections::{BTreeSet, HashMap};
use volute::sop::{Cube, Ecube, Esop, Soes, Sop};

fn increasing(f: &Formula) -> bool {
    let mut v = Vec::new();
    f.vars_in_order(&mut v);
    v.windows(2).all(|w| w[0] < w[1])
}

/// terms whose variables must appear in increasing order: the operands of the outermost
/// | and ^ down to the level of a cube / exclusive term
fn ordered_terms(f: &Formula, kind: &str) -> bool {
    match (kind, f) {
        ("cube", _) | ("ecube", _) => increasing(f),
        ("sop", Formula::Or(v)) => v.iter().all(increasing),
        ("soes", Formula::Or(v)) => v.iter().all(increasing),
        ("esop", Formula::Xor(v)) => v.iter().all(|t| match t {
            Formula::And(_) | Formula::Var(_) | Formula::Not(_) | Formula::Const(_) => increasing(t),
            _ => false,
        }),
        (_, _) => increasing(f),
    }
}

fn sup_of(f: &Formula, extra: &BTreeSet<usize>) -> BTreeSet<usize> {
    let mut v = Vec::new();
    f.vars_in_order(&mut v);
    v.into_iter().chain(extra.iter().copied()).collect()
}

/// text -> formula; evaluates to `value` on every assignment of the variables present.
fn check_text(kind: &str, text: &str, value: &dyn Fn(usize) -> bool, own_vars: &BTreeSet<usize>) -> Verdict {
    let f = match parse_formula(text) {
        Ok(f) => f,
        Err(e) => return fail("a formula of the grammar (x<i>, !, juxtaposition, ^, |, 0, 1)", format!("{:?}: {}", text, e)),
    };
    let sup = sup_of(&f, own_vars);
    if sup.len() > 16 {
        return Err(("harness".into(), "support too large".into()));
    }
    for bg in [0u64, 0xffff_ffff] {
        for m in assignments(&sup, bg) {
            let want = value(m as usize);
            if f.eval(m) != want {
                return fail(format!("the text evaluates to value({:#x}) = {}", m, want), format!("{:?} evaluates to {}", text, f.eval(m)));
            }
        }
    }
    if !ordered_terms(&f, kind) {
        return fail("variables appear in increasing index order", format!("{:?}", text));
    }
    Ok(())
}

fn cube_of(p: u32, q: u32) -> Cube {
    Cube::from_mask(p, q)
}

fn vars_of(masks: &[u32]) -> BTreeSet<usize> {
    let mut s = BTreeSet::new();
    for m in masks {
        for v in 0..32 {
            if (m >> v) & 1 != 0 {
                s.insert(v);
            }
        }
    }
    s
}

fn ecube_of(vars: u32, xnor: bool) -> Ecube {
    let v: Vec<usize> = (0..32).filter(|i| (vars >> i) & 1 != 0).collect();
    Ecube::from_vars(&v, xnor)
}

fn check_cube(p: u32, q: u32) -> Result<String, (String, String)> {
    match guarded(|| {
        let c = cube_of(p, q);
        let t = c.to_string();
        let own = if p & q != 0 { BTreeSet::new() } else { vars_of(&[p, q]) };
        check_text("cube", &t, &|m| c.value(m), &own).map(|_| t)
    }) {
        Ok(v) => v,
        Err(e) => fail("Cube::to_string returns", e),
    }
}

fn check_ecube(vars: u32, xnor: bool) -> Result<String, (String, String)> {
    match guarded(|| {
        let e = ecube_of(vars, xnor);
        let t = e.to_string();
        check_text("ecube", &t, &|m| e.value(m), &vars_of(&[vars])).map(|_| t)
    }) {
        Ok(v) => v,
        Err(e) => fail("Ecube::to_string returns", e),
    }
}

type Key = Vec<(u32, u32)>;

fn check_form(kind: &str, n: usize, k: &Key) -> Verdict {
    match guarded(|| {
        // contradictory (zero) cubes contribute no variable to the probe set
        let own = vars_of(&k.iter().filter(|(p, q)| kind == "soes" || p & q == 0).flat_map(|(p, q)| [*p, if kind == "soes" { 0 } else { *q }]).collect::<Vec<u32>>());
        match kind {
            "sop" => {
                let s = Sop::from_cubes(n, k.iter().map(|(p, q)| cube_of(*p, *q)).collect());
                check_text(kind, &s.to_string(), &|m| s.value(m), &own)
            }
            "esop" => {
                let s = Esop::from_cubes(n, k.iter().map(|(p, q)| cube_of(*p, *q)).collect());
                check_text(kind, &s.to_string(), &|m| s.value(m), &own)
            }
            _ => {
                let s = Soes::from_cubes(n, k.iter().map(|(p, q)| ecube_of(*p, *q != 0)).collect());
                check_text(kind, &s.to_string(), &|m| s.value(m), &own)
            }
        }
    }) {
        Ok(v) => v,
        Err(e) => fail("to_string returns", e),
    }
}

fn show_key(k: &Key) -> String {
    k.iter().map(|(p, q)| format!("{:x}/{:x}", p, q)).collect::<Vec<_>>().join(",")
}

fn parse_key(s: &str) -> Result<Key, String> {
    s.split(',').filter(|x| !x.is_empty()).map(|x| {
        let (p, q) = x.split_once('/').ok_or("bad term")?;
        Ok((u32::from_str_radix(p, 16).map_err(|e| e.to_string())?, u32::from_str_radix(q, 16).map_err(|e| e.to_string())?))
    }).collect()
}

// ------------------------------------------------ printing through every route of std::fmt

/// a `fmt::Write` sink that fails once `cap` bytes have been written
struct Limited {
    buf: String,
    cap: usize,
}

impl std::fmt::Write for Limited {
    fn write_str(&mut self, s: &str) -> std::fmt::Result {
        if self.buf.len() + s.len() > self.cap {
            let mut room = self.cap - self.buf.len();
            while !s.is_char_boundary(room) {
                room -= 1;
            }
            self.buf.push_str(&s[..room]);
            return Err(std::fmt::Error);
        }
        self.buf.push_str(s);
        Ok(())
    }
}

/// the object printed with format flags (a Display impl may pad; it must not print
/// something that reads as another function). Precision is left out: for text, Rust defines
/// it as truncation, and `f.pad` would honour it legitimately.
fn flagged(d: &dyn std::fmt::Display) -> Vec<(&'static str, String)> {
    vec![
        ("{:4}", format!("{:4}", d)),
        ("{:>14}", format!("{:>14}", d)),
        ("{:<14}", format!("{:<14}", d)),
        ("{:*^21}", format!("{:*^21}", d)),
        ("{:+}", format!("{:+}", d)),
        ("{:#}", format!("{:#}", d)),
    ]
}

/// One object (a) printed (1) with format flags, (2) into sinks that fail after k bytes for
/// every k, each failure followed by printing (a) and a second object (b) again: every text
/// obtained must still read as the object's function.
fn check_modes(kind: &str, n: usize, a: &Key, b: &Key) -> Verdict {
    use std::fmt::Write as _;
    fn build(kind: &str, n: usize, k: &Key) -> (Box<dyn std::fmt::Display>, Box<dyn Fn(usize) -> bool>, BTreeSet<usize>) {
        let own = vars_of(&k.iter().filter(|(p, q)| kind == "soes" || kind == "ecube" || p & q == 0).flat_map(|(p, q)| [*p, if kind == "soes" || kind == "ecube" { 0 } else { *q }]).collect::<Vec<u32>>());
        match kind {
            "cube" => {
                let c = cube_of(k[0].0, k[0].1);
                (Box::new(c), Box::new(move |m| c.value(m)), own)
            }
            "ecube" => {
                let c = ecube_of(k[0].0, k[0].1 != 0);
                (Box::new(c), Box::new(move |m| c.value(m)), own)
            }
            "sop" => {
                let s = Sop::from_cubes(n, k.iter().map(|(p, q)| cube_of(*p, *q)).collect());
                let s2 = s.clone();
                (Box::new(s), Box::new(move |m| s2.value(m)), own)
            }
            "esop" => {
                let s = Esop::from_cubes(n, k.iter().map(|(p, q)| cube_of(*p, *q)).collect());
                let s2 = s.clone();
                (Box::new(s), Box::new(move |m| s2.value(m)), own)
            }
            _ => {
                let s = Soes::from_cubes(n, k.iter().map(|(p, q)| ecube_of(*p, *q != 0)).collect());
                let s2 = s.clone();
                (Box::new(s), Box::new(move |m| s2.value(m)), own)
            }
        }
    }
    match guarded(|| {
        let (da, va, owna) = build(kind, n, a);
        let (db, vb, ownb) = build(kind, n, b);
        let ta = da.to_string();
        check_text(kind, &ta, &*va, &owna)?;
        for (spec, text) in flagged(&*da) {
            let core = text.trim_matches(|c| c == ' ' || c == '*');
            let core = if core.is_empty() && !text.is_empty() && ta.is_empty() { "" } else { core };
            if let Err(e) = check_text(kind, core, &*va, &owna) {
                return fail(format!("printed with {}: {}", spec, e.0), format!("{:?} ({})", text, e.1));
            }
        }
        for cap in 0..ta.len() {
            // the failing write itself may return an error or even panic: only what is printed
            // afterwards is judged
            let _ = guarded(|| {
                let mut sink = Limited { buf: String::new(), cap };
                let _ = write!(sink, "{}", &*da);
            });
            // whatever happened to that write, the next prints are prints of a and of b
            for (d, v, own, who) in [(&da, &va, &owna, "the same object"), (&db, &vb, &ownb, "another object")] {
                let t2 = d.to_string();
                if let Err(e) = check_text(kind, &t2, &**v, own) {
                    return fail(format!("after a write of {:?} into a sink that failed after {} bytes, printing {}: {}", ta, cap, who, e.0), format!("{:?} ({})", t2, e.1));
                }
            }
        }
        Ok(())
    }) {
        Ok(v) => v,
        Err(e) => fail("formatting returns", e),
    }
}

pub fn replay(case: &Case) -> Result<Verdict, String> {
    let h = |k: &str| -> Result<u32, String> { u32::from_str_radix(case.get(k)?, 16).map_err(|e| e.to_string()) };
    Ok(match case.get("kind")? {
        "modes" => check_modes(case.get("what")?, case.usize("n")?, &parse_key(case.get("a")?)?, &parse_key(case.get("b")?)?),
        "cube" => check_cube(h("p")?, h("q")?).map(|_| ()),
        "ecube" => check_ecube(h("p")?, h("q")? != 0).map(|_| ()),
        "collision" => {
            // two distinct objects printing the same text
            let (a, b) = (parse_key(case.get("a")?)?, parse_key(case.get("b")?)?);
            let what = case.get("what")?;
            let (ta, tb) = if what == "cube" { (cube_of(a[0].0, a[0].1).to_string(), cube_of(b[0].0, b[0].1).to_string()) } else { (ecube_of(a[0].0, a[0].1 != 0).to_string(), ecube_of(b[0].0, b[0].1 != 0).to_string()) };
            if ta == tb {
                fail("distinct cubes print distinct text", format!("both print {:?}", ta))
            } else {
                Ok(())
            }
        }
        k @ ("sop" | "esop" | "soes") => check_form(k, case.usize("n")?, &parse_key(case.get("k")?)?),
        k => return Err(format!("unknown kind {}", k)),
    })
}

fn rec(l: &mut Local, v: Verdict, key: String, sig: &str, case: String, h: u64) {
    l.transitions += 1;
    l.validated += 1;
    match v {
        Ok(()) => {
            l.digest ^= crate::engine::mix(h);
            l.nontrivial += 1;
        }
        Err(e) => l.violation(key, &format!("C16/{}", sig), case, e.0, e.1),
    }
}

fn injective(l: &mut Local, what: &str, items: Vec<((u32, u32), String)>) {
    let mut seen: HashMap<String, (u32, u32)> = HashMap::new();
    for (k, t) in items {
        if let Some(prev) = seen.get(&t) {
            if *prev != k {
                l.violation(format!("collision|{}|{}", what, t), &format!("C16/{}/collision", what), format!("kind=collision;what={};a={:x}/{:x};b={:x}/{:x}", what, prev.0, prev.1, k.0, k.1), "distinct cubes print distinct text".into(), format!("{:?} printed for both", t));
            }
        } else {
            seen.insert(t, k);
        }
    }
}

fn lists(terms: &[(u32, u32)], maxlen: usize) -> Vec<Key> {
    let mut out: Vec<Key> = vec![vec![]];
    let mut frontier: Vec<Key> = vec![vec![]];
    for _ in 0..maxlen {
        let mut next = Vec::new();
        for f in &frontier {
            for t in terms {
                let mut g = f.clone();
                g.push(*t);
                next.push(g);
            }
        }
        out.extend(next.iter().cloned());
        frontier = next;
    }
    out
}

pub fn run(run: &Run) {
    if let Err(e) = crate::model::cube::self_check() {
        run.machinery(format!("formula model self-check: {}", e));
        return;
    }
    run.set_rule("state = a cube / exclusive cube / Sop / Esop / Soes; transition = to_string(); the text is parsed by the harness's own recursive-descent parser and evaluated on every assignment of the variables present (x two backgrounds); every printed object counts as non-trivial");
    run.assume("grammar: x<digits> (maximal munch), ! complement, juxtaposition AND, ^ XOR, | OR loosest, constants 0 and 1 (model::cube::parse_formula)");
    let nmax = if run.thorough() { 6 } else { 5 };
    run.section_seq(&format!("CUBES and ECUBES over n<={} variables: all of them (incl. contradictory masks), injectivity of the text", nmax), true, "complete", |l| {
        let mut ctexts = Vec::new();
        let mut etexts = Vec::new();
        for p in 0..(1u32 << nmax) {
            for q in 0..(1u32 << nmax) {
                l.states += 1;
                match check_cube(p, q) {
                    Ok(t) => {
                        l.transitions += 1;
                        l.validated += 1;
                        l.nontrivial += 1;
                        l.digest ^= crate::engine::mix(((p as u64) << 32) | q as u64);
                        // contradictory masks are all the one zero cube
                        ctexts.push((if p & q != 0 { (!0, !0) } else { (p, q) }, t));
                    }
                    Err(v) => rec(l, Err(v), format!("cube|{:x}|{:x}", p, q), "cube", format!("kind=cube;p={:x};q={:x}", p, q), 0),
                }
            }
            for x in [false, true] {
                l.states += 1;
                match check_ecube(p, x) {
                    Ok(t) => {
                        l.transitions += 1;
                        l.validated += 1;
                        l.nontrivial += 1;
                        etexts.push(((p, x as u32), t));
                    }
                    Err(v) => rec(l, Err(v), format!("ecube|{:x}|{}", p, x as u8), "ecube", format!("kind=ecube;p={:x};q={}", p, x as u8), 0),
                }
            }
        }
        injective(l, "cube", ctexts);
        injective(l, "ecube", etexts);
        l.sample(J::s("kind=cube;p=5;q=2"));
    });
    for n in 0..=(if run.thorough() { 4usize } else { 3 }) {
        let mut cubes: Vec<(u32, u32)> = Vec::new();
        for p in 0..(1u32 << n) {
            for q in 0..(1u32 << n) {
                if p & q == 0 {
                    cubes.push((p, q));
                }
            }
        }
        let eterms: Vec<(u32, u32)> = (0..(1u32 << n)).flat_map(|v| [(v, 0), (v, 1)]).collect();
        let maxlen = if n == 4 { 2 } else if n <= 1 { 4 } else if n == 2 { if run.thorough() { 4 } else { 3 } } else if run.thorough() { 3 } else { 2 };
        for (kind, terms) in [("sop", &cubes), ("esop", &cubes), ("soes", &eterms)] {
            let ls = lists(terms, maxlen);
            let total = ls.len() as u64;
            run.section(&format!("{} n={}: all ordered lists of <= {} terms ({} forms incl. empty and constant terms)", kind.to_uppercase(), n, maxlen, total), true, "complete over ordered term lists", total, 64, |r, l| {
                for i in r {
                    let k = &ls[i as usize];
                    l.states += 1;
                    rec(l, check_form(kind, n, k), format!("{}|{:02}|{}", kind, n, show_key(k)), kind, format!("kind={};n={};k={}", kind, n, show_key(k)), i);
                    if i == total / 2 {
                        l.sample(J::s(format!("kind={};n={};k={}", kind, n, show_key(k))));
                    }
                }
            });
        }
    }
    // many variables in one term: every exclusive cube over variables 0..15 (long texts, one- and
    // two-digit indices mixed); an XOR formula is affine, so zero + the unit assignments decide it
    run.section("ECUBES all 2^16 variable sets over x0..x15, both polarities: text parsed and decided on the affine basis", true, "complete over the subsets of 16 variables; affine functions are determined by the all-zero and the 16 single-variable assignments (two backgrounds)", 1 << 17, 256, |r, l| {
        for idx in r {
            let (vars, x) = ((idx >> 1) as u32, idx & 1 != 0);
            l.states += 1;
            let res = guarded(|| {
                let e = ecube_of(vars, x);
                let t = e.to_string();
                let f = match parse_formula(&t) {
                    Ok(f) => f,
                    Err(err) => return fail("a formula of the grammar", format!("{:?}: {}", t, err)),
                };
                let affine = match &f {
                    Formula::Xor(v) => v.iter().all(|a| matches!(a, Formula::Var(_) | Formula::Const(_))),
                    Formula::Var(_) | Formula::Const(_) => true,
                    _ => false,
                };
                if !affine {
                    return fail("an XOR of variables and constants", format!("{:?}", t));
                }
                let mut probe: Vec<u64> = vec![0];
                let mut mentioned = Vec::new();
                f.vars_in_order(&mut mentioned);
                for v in (0..16usize).chain(mentioned.iter().copied()) {
                    probe.push(1u64 << v);
                }
                for bg in [0u64, 0xffff_ffff] {
                    for p in &probe {
                        let m = p ^ bg;
                        if f.eval(m) != e.value(m as usize) {
                            return fail(format!("the text evaluates to value({:#x}) = {}", m, e.value(m as usize)), format!("{:?} evaluates to {}", t, f.eval(m)));
                        }
                    }
                }
                if !increasing(&f) {
                    return fail("variables appear in increasing index order", format!("{:?}", t));
                }
                Ok(())
            });
            let v = match res {
                Ok(v) => v,
                Err(p) => fail("Ecube::to_string returns", p),
            };
            rec(l, v, format!("ecube16|{:05x}|{}", vars, x as u8), "ecube/many-variables", format!("kind=ecube;p={:x};q={}", vars, x as u8), idx);
        }
    });
    // cubes with many literals: for every subset m of x0..x13: the minterm-like cube (pos = m, neg = rest)
    // and the all-positive cube; a monomial is decided by its satisfying assignment and the single flips
    run.section("CUBES with up to 14 literals: for every subset of x0..x13 the cubes (pos=m, neg=rest) and (pos=m): text parsed and decided on the satisfying assignment and its single flips", true, "complete over the 2^14 subsets, two cube shapes each", 1 << 15, 256, |r, l| {
        for idx in r {
            let m = (idx >> 1) as u32;
            let (p, q) = if idx & 1 == 0 { (m, !m & 0x3fff) } else { (m, 0) };
            l.states += 1;
            let res = guarded(|| {
                let c = cube_of(p, q);
                let t = c.to_string();
                let f = match parse_formula(&t) {
                    Ok(f) => f,
                    Err(err) => return fail("a formula of the grammar", format!("{:?}: {}", t, err)),
                };
                let monomial = match &f {
                    Formula::And(v) => v.iter().all(|a| matches!(a, Formula::Var(_)) || matches!(a, Formula::Not(b) if matches!(**b, Formula::Var(_)))),
                    Formula::Var(_) | Formula::Const(_) => true,
                    Formula::Not(b) => matches!(**b, Formula::Var(_)),
                    _ => false,
                };
                if !monomial {
                    return fail("a product of literals", format!("{:?}", t));
                }
                let mut mentioned = Vec::new();
                f.vars_in_order(&mut mentioned);
                for bg in [0u64, 0xffff_c000] {
                    let sat = (p as u64) | (bg & !(q as u64));
                    let mut probe = vec![sat];
                    for v in (0..14usize).chain(mentioned.iter().copied()) {
                        probe.push(sat ^ (1u64 << v));
                    }
                    for a in probe {
                        if f.eval(a) != c.value(a as usize) {
                            return fail(format!("the text evaluates to value({:#x}) = {}", a, c.value(a as usize)), format!("{:?} evaluates to {}", t, f.eval(a)));
                        }
                    }
                }
                if !increasing(&f) {
                    return fail("variables appear in increasing index order", format!("{:?}", t));
                }
                Ok(())
            });
            let v = match res {
                Ok(v) => v,
                Err(p) => fail("Cube::to_string returns", p),
            };
            rec(l, v, format!("cube14|{:04x}|{:04x}", p, q), "cube/many-literals", format!("kind=cube;p={:x};q={:x}", p, q), idx);
        }
    });
    // 32-variable forms may contain the canonical zero cube
    run.section_seq("FORMS over 32 variables containing the zero cube: Sop / Esop from_cubes(32, lists of <= 2 over {zero, 1, x0, !x31, x5x31})", true, "the only size at which from_cubes accepts the zero cube", |l| {
        let z = (!0u32, !0u32);
        let terms: Vec<(u32, u32)> = vec![z, (0, 0), (1, 0), (0, 1 << 31), ((1 << 5) | (1 << 31), 0)];
        for kind in ["sop", "esop"] {
            for k in lists(&terms, 2) {
                l.states += 1;
                rec(l, check_form(kind, 32, &k), format!("{}|32|{}", kind, show_key(&k)), kind, format!("kind={};n=32;k={}", kind, show_key(&k)), k.len() as u64);
            }
        }
    });
    // two-digit indices
    run.section_seq("TWO-DIGIT indices: all cubes/ecubes with <= 3 literals over {0,1,2,9,10,11,12,19,20,21,30,31}; forms of <= 2 such terms", false, "x1x0 vs x10 ambiguity would surface as a wrong value or a collision", |l| {
        let idx: [u32; 12] = [0, 1, 2, 9, 10, 11, 12, 19, 20, 21, 30, 31];
        let mut cubes: Vec<(u32, u32)> = vec![(0, 0)];
        let lits: Vec<(u32, u32)> = idx.iter().flat_map(|v| [(1u32 << v, 0u32), (0u32, 1u32 << v)]).collect();
        for (i, a) in lits.iter().enumerate() {
            cubes.push(*a);
            for (j, b) in lits.iter().enumerate().skip(i + 1) {
                if (a.0 | b.0) & (a.1 | b.1) == 0 {
                    cubes.push((a.0 | b.0, a.1 | b.1));
                }
                for c in lits.iter().skip(j + 1) {
                    let (p, q) = (a.0 | b.0 | c.0, a.1 | b.1 | c.1);
                    if p & q == 0 {
                        cubes.push((p, q));
                    }
                }
            }
        }
        cubes.sort();
        cubes.dedup();
        let mut ctexts = Vec::new();
        for (p, q) in &cubes {
            l.states += 1;
            match check_cube(*p, *q) {
                Ok(t) => {
                    l.transitions += 1;
                    l.validated += 1;
                    l.nontrivial += 1;
                    ctexts.push(((*p, *q), t));
                }
                Err(v) => rec(l, Err(v), format!("cube|{:x}|{:x}", p, q), "cube", format!("kind=cube;p={:x};q={:x}", p, q), 0),
            }
        }
        injective(l, "cube", ctexts);
        let mut etexts = Vec::new();
        let mut emasks: Vec<u32> = vec![0];
        for (i, a) in idx.iter().enumerate() {
            emasks.push(1 << a);
            for (j, b) in idx.iter().enumerate().skip(i + 1) {
                emasks.push((1 << a) | (1 << b));
                for c in idx.iter().skip(j + 1) {
                    emasks.push((1 << a) | (1 << b) | (1 << c));
                }
            }
        }
        for m in &emasks {
            for x in [false, true] {
                l.states += 1;
                match check_ecube(*m, x) {
                    Ok(t) => {
                        l.transitions += 1;
                        l.validated += 1;
                        l.nontrivial += 1;
                        etexts.push(((*m, x as u32), t));
                    }
                    Err(v) => rec(l, Err(v), format!("ecube|{:x}|{}", m, x as u8), "ecube", format!("kind=ecube;p={:x};q={}", m, x as u8), 0),
                }
            }
        }
        injective(l, "ecube", etexts);
        // forms of <= 2 terms over a sub-alphabet of these (32 variables declared)
        let sub: Vec<(u32, u32)> = cubes.iter().step_by(std::cmp::max(1, cubes.len() / if run.thorough() { 120 } else { 50 })).copied().collect();
        let esub: Vec<(u32, u32)> = emasks.iter().step_by(std::cmp::max(1, emasks.len() / if run.thorough() { 120 } else { 50 })).flat_map(|m| [(*m, 0), (*m, 1)]).collect();
        for (kind, terms) in [("sop", &sub), ("esop", &sub), ("soes", &esub)] {
            for k in lists(terms, 2) {
                if vars_of(&k.iter().flat_map(|(p, q)| [*p, if kind == "soes" { 0 } else { *q }]).collect::<Vec<u32>>()).len() > 12 {
                    continue;
                }
                l.states += 1;
                rec(l, check_form(kind, 32, &k), format!("{}|32|{}", kind, show_key(&k)), kind, format!("kind={};n=32;k={}", kind, show_key(&k)), k.len() as u64);
            }
        }
        l.sample(J::s("kind=cube;p=402;q=800 (x1 x10 !x11)"));
    });
    run.section_seq("MODES format flags and failing sinks: cubes, ecubes over 4 variables; Sop/Esop/Soes of <= 2 terms over 3 variables and two-digit indices", false, "each object printed with 6 flag combinations (width, alignment, fill, sign, alternate; precision is left out: for text it legitimately means truncation) and into sinks failing after every byte count 0..len, each failure followed by printing the object and a second object again; all texts must read as the object's function", |l| {
        let mut jobs: Vec<(&str, usize, Key, Key)> = Vec::new();
        for p in 0..16u32 {
            for q in 0..16u32 {
                if p & q == 0 {
                    jobs.push(("cube", 4, vec![(p, q)], vec![(q, p)]));
                }
            }
            for x in 0..2u32 {
                jobs.push(("ecube", 4, vec![(p, x)], vec![(p ^ 5, 1 - x)]));
            }
        }
        jobs.push(("cube", 12, vec![(0x402, 0x800)], vec![(0x800, 0x3)]));
        jobs.push(("ecube", 12, vec![(0xc01, 1)], vec![(0x400, 0)]));
        let cubes3: Vec<(u32, u32)> = (0..8u32).flat_map(|p| (0..8u32).filter(move |q| p & q == 0).map(move |q| (p, q))).collect();
        let ecubes3: Vec<(u32, u32)> = (0..8u32).flat_map(|p| [(p, 0), (p, 1)]).collect();
        for (kind, terms) in [("sop", &cubes3), ("esop", &cubes3), ("soes", &ecubes3)] {
            let ls = lists(terms, 2);
            let nl = ls.len();
            for (i, k) in ls.iter().enumerate() {
                if i % 5 != 0 && k.len() == 2 {
                    continue;
                }
                jobs.push((kind, 3, k.clone(), ls[(i * 7 + 3) % nl].clone()));
            }
            let wide: Key = if kind == "soes" { vec![(0xc00, 1), (0x3, 0)] } else { vec![(0x402, 0x800), (0x1, 0x400)] };
            let other: Key = if kind == "soes" { vec![(0x2, 0)] } else { vec![(0x2, 0)] };
            jobs.push((kind, 12, wide.clone(), other.clone()));
            jobs.push((kind, 12, other, wide));
        }
        for (i, (kind, n, a, b)) in jobs.iter().enumerate() {
            l.states += 1;
            rec(l, check_modes(kind, *n, a, b), format!("modes|{}|{}|{}|{}", kind, n, show_key(a), show_key(b)), &format!("{}/modes", kind), format!("kind=modes;what={};n={};a={};b={}", kind, n, show_key(a), show_key(b)), i as u64);
        }
    });
}
