//! One module per property; `run` dispatches, `replay_file` re-executes one recorded case
//! against the real code without the explorer.

pub mod common;
pub mod c01;
pub mod c02;
pub mod hist;
pub mod c03;

use crate::engine::{json, Case, Run};

pub const ALL: [&str; 3] = ["C01", "C02", "C03"];

pub fn known(id: &str) -> bool {
    ALL.contains(&id)
}

pub fn run(run: &Run) {
    match run.prop.as_str() {
        "C01" => c01::run(run),
        "C02" => c02::run(run),
        "C03" => c03::run(run),
        _ => unreachable!(),
    }
}

/// Re-check one case; Ok(()) = the property holds on it, Err((expected, observed)) = violated.
pub fn replay_case(prop: &str, case: &Case) -> Result<Result<(), (String, String)>, String> {
    match prop {
        "C01" => c01::replay(case),
        "C02" => c02::replay(case),
        "C03" => c03::replay(case),
        _ => Err(format!("unknown property {}", prop)),
    }
}

pub fn replay_file(path: &str) -> i32 {
    let text = match std::fs::read_to_string(path) {
        Ok(t) => t,
        Err(e) => {
            eprintln!("MACHINERY-ERROR cannot read {}: {}", path, e);
            return 2;
        }
    };
    let j = match json::parse(&text) {
        Ok(j) => j,
        Err(e) => {
            eprintln!("MACHINERY-ERROR cannot parse {}: {}", path, e);
            return 2;
        }
    };
    let prop = j.get("property").and_then(|x| x.as_str()).unwrap_or("").to_string();
    let case_s = j.get("case").and_then(|x| x.as_str()).unwrap_or("").to_string();
    let case = Case::parse(&case_s);
    // the same case is executed twice: a replay must be deterministic before it is believed
    let r1 = replay_case(&prop, &case);
    let r2 = replay_case(&prop, &case);
    match (r1, r2) {
        (Ok(a), Ok(b)) => {
            if a != b {
                eprintln!("MACHINERY-ERROR replay of {} is not deterministic", path);
                return 2;
            }
            match a {
                Ok(()) => {
                    println!("REPLAY-OK property={} case={} (the recorded violation no longer reproduces)", prop, case_s);
                    0
                }
                Err((exp, obs)) => {
                    println!("VIOLATION property={} replay={}", prop, path);
                    println!("  case:      {}", case_s);
                    println!("  expected:  {}", exp);
                    println!("  observed:  {}", obs);
                    1
                }
            }
        }
        (Err(e), _) | (_, Err(e)) => {
            eprintln!("MACHINERY-ERROR replay {}: {}", path, e);
            2
        }
    }
}

/// Sub-process entry points (profile-sensitive parts run in the `checked` binary).
pub fn sub(name: &str, _args: &[String], _seed: u64) -> i32 {
    eprintln!("unknown sub-command {}", name);
    2
}
