//! One module per property; `run` dispatches, `replay_file` re-executes one recorded case
//! against the real code without the explorer.

pub mod common;
pub mod c01;
pub mod c02;
pub mod hist;
pub mod iter;
pub mod xsize;
pub mod c03;
pub mod c04;
pub mod c06;
pub mod c07;
pub mod c08;
pub mod c09;
pub mod c10;
pub mod c11;
pub mod c12;
pub mod c13;
pub mod c14;
pub mod c15;
pub mod c16;
pub mod c17;
pub mod c19;

use crate::engine::{json, Case, Run};

pub const ALL: [&str; 18] = ["C01", "C02", "C03", "C04", "C05", "C06", "C07", "C08", "C09", "C10", "C11", "C12", "C13", "C14", "C15", "C16", "C17", "C19"];

pub fn known(id: &str) -> bool {
    ALL.contains(&id)
}

pub fn run(run: &Run) {
    match run.prop.as_str() {
        "C01" => c01::run(run),
        "C02" => c02::run(run),
        "C03" => c03::run(run),
        "C04" => c04::run(run),
        "C05" => c04::run_c05(run),
        "C06" => c06::run(run),
        "C07" => c07::run(run),
        "C08" => c08::run(run),
        "C09" => c09::run(run),
        "C10" => c10::run(run),
        "C11" => c11::run(run),
        "C12" => c12::run(run),
        "C13" => c13::run(run),
        "C14" => c14::run(run),
        "C15" => c15::run(run),
        "C16" => c16::run(run),
        "C17" => c17::run(run),
        "C19" => c19::run(run),
        _ => unreachable!(),
    }
    // CONFIG: the quick-sized exploration of the property is repeated in the checked-profile
    // binary (debug assertions + overflow checks, what `cargo test` and debug builds run);
    // C08, C11 and C17 start their own profile-sensitive parts, C19 has its own second binary
    if !run.silent && crate::engine::profile() == "release" && !["C08", "C11", "C17", "C19"].contains(&run.prop.as_str()) {
        crate::engine::child_run(run, &[]);
    }
}

/// Re-check one case; Ok(()) = the property holds on it, Err((expected, observed)) = violated.
pub fn replay_case(prop: &str, case: &Case) -> Result<Result<(), (String, String)>, String> {
    match prop {
        "C01" => c01::replay(case),
        "C02" => c02::replay(case),
        "C03" => c03::replay(case),
        "C04" => c04::replay(case),
        "C05" => c04::replay_c05(case),
        "C06" => c06::replay(case),
        "C07" => c07::replay(case),
        "C08" => c08::replay(case),
        "C09" => c09::replay(case),
        "C10" => c10::replay(case),
        "C11" => c11::replay(case),
        "C12" => c12::replay(case),
        "C13" => c13::replay(case),
        "C14" => c14::replay(case),
        "C15" => c15::replay(case),
        "C16" => c16::replay(case),
        "C17" => c17::replay(case),
        "C19" => c19::replay(case),
        _ => Err(format!("unknown property {}", prop)),
    }
}

pub fn replay_file(path: &str) -> i32 {
    let text = match std::fs::read_to_string(path) {
        Ok(t) => t,
        Err(e) => {
            eprintln!("MACHINERY-ERROR cannot read {}: {}", path, e);
            return 2;
        }
    };
    let j = match json::parse(&text) {
        Ok(j) => j,
        Err(e) => {
            eprintln!("MACHINERY-ERROR cannot parse {}: {}", path, e);
            return 2;
        }
    };
    let prop = j.get("property").and_then(|x| x.as_str()).unwrap_or("").to_string();
    let case_s = j.get("case").and_then(|x| x.as_str()).unwrap_or("").to_string();
    let case = Case::parse(&case_s);
    if case.opt("bin") == Some("rng") {
        return match std::env::var("LSX_RNG") {
            Ok(exe) => match std::process::Command::new(exe).arg("replay").arg(path).status() {
                Ok(st) => st.code().unwrap_or(2),
                Err(e) => {
                    eprintln!("MACHINERY-ERROR cannot run lsx-rng: {}", e);
                    2
                }
            },
            Err(_) => {
                eprintln!("MACHINERY-ERROR LSX_RNG not set (use ./check replay)");
                2
            }
        };
    }
    if case.opt("prof") == Some("checked") && crate::engine::profile() != "checked" {
        // the case was observed in the checked-profile binary: replay it there
        return match std::env::var("LSX_CHECKED") {
            Ok(exe) => match std::process::Command::new(exe).arg("replay").arg(path).status() {
                Ok(st) => st.code().unwrap_or(2),
                Err(e) => {
                    eprintln!("MACHINERY-ERROR cannot run the checked binary: {}", e);
                    2
                }
            },
            Err(_) => {
                eprintln!("MACHINERY-ERROR LSX_CHECKED not set (use ./check replay)");
                2
            }
        };
    }
    // the same case is executed twice: a replay must be deterministic before it is believed
    let r1 = replay_case(&prop, &case);
    let r2 = replay_case(&prop, &case);
    match (r1, r2) {
        (Ok(a), Ok(b)) => {
            if a != b {
                eprintln!("MACHINERY-ERROR replay of {} is not deterministic", path);
                return 2;
            }
            match a {
                Ok(()) => {
                    println!("REPLAY-OK property={} case={} (the recorded violation no longer reproduces)", prop, case_s);
                    0
                }
                Err((exp, obs)) => {
                    println!("VIOLATION property={} replay={}", prop, path);
                    println!("  case:      {}", case_s);
                    println!("  expected:  {}", exp);
                    println!("  observed:  {}", obs);
                    1
                }
            }
        }
        (Err(e), _) | (_, Err(e)) => {
            eprintln!("MACHINERY-ERROR replay {}: {}", path, e);
            2
        }
    }
}

/// Sub-process entry points (profile-sensitive parts run in the `checked` binary).
pub fn sub(name: &str, args: &[String], seed: u64) -> i32 {
    match name {
        // lsx sub run <prop> <tier>: run the property's profile-sensitive part in this binary
        // and print the run as JSON (used by the release-profile parent, CONFIG mode)
        "run" if args.len() >= 2 => {
            let own_part = ["C08", "C11", "C17"].contains(&args[0].as_str());
            let tier = if args[1] == "thorough" && own_part { crate::engine::Tier::Thorough } else { crate::engine::Tier::Quick };
            let mut r = Run::new(&args[0], tier, seed);
            r.silent = true;
            crate::engine::start_watchdog(tier);
            match args[0].as_str() {
                "C08" => c08::iterator_part(&r),
                "C11" => c11::explore_all(&r),
                "C17" => c17::explore(&r),
                id if known(id) && id != "C19" => run(&r),
                _ => {
                    eprintln!("no child part for {}", args[0]);
                    return 2;
                }
            }
            #[allow(unreachable_code)]
            {
                print!("{}", crate::engine::run_to_json(&r).dump());
                0
            }
        }
        "c17digest" if !args.is_empty() => c17::sub_digest(&args[0]),
        _ => {
            eprintln!("unknown sub-command {}", name);
            2
        }
    }
}
