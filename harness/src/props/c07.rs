//! C07 — bdd_complexity equals the node count of the shared complement-edge ROBDD.
//!
//! State: a list of 0..4 tables of the same n. Transition: bdd_complexity(list), and the
//! metamorphic transitions reverse / duplicate an element / complement an element, which
//! must return the same number. Oracle: model::bdd (textbook unique table).

use super::common::*;
use crate::api::Tab;
use crate::engine::json::J;
use crate::engine::{fmt_words, guarded, hash_words, parse_words, Case, Local, Run};
use crate::model::alpha;
use crate::model::bdd;
use crate::model::tt::{nbits, TT};
use crate::{for_static, for_type};

fn case_str(st: bool, n: usize, fs: &[TT]) -> String {
    format!("ty={};n={};fs={}", tyname(st), n, fs.iter().map(|f| fmt_words(&f.w)).collect::<Vec<_>>().join(","))
}

pub fn check_one<L: Tab>(n: usize, fs: &[TT], meta: bool) -> Result<usize, (String, String)> {
    let want = bdd::shared_size(fs);
    let r = guarded(|| {
        let ls: Vec<L> = fs.iter().map(|f| mk_tt::<L>(f)).collect();
        let base = L::t_bdd(&ls);
        let mut metas: Vec<(&'static str, usize)> = Vec::new();
        if meta && !ls.is_empty() {
            let mut rev = ls.clone();
            rev.reverse();
            metas.push(("reversed list", L::t_bdd(&rev)));
            let mut dup = ls.clone();
            dup.push(ls[ls.len() / 2].clone());
            metas.push(("list with a duplicated element", L::t_bdd(&dup)));
            let mut cpl = ls.clone();
            cpl[0] = cpl[0].t_not();
            metas.push(("list with its first element complemented", L::t_bdd(&cpl)));
            if ls.len() >= 2 {
                let mut rot = ls.clone();
                rot.rotate_left(1);
                let k = rot.len() - 1;
                rot[k] = rot[k].t_not();
                metas.push(("rotated list with one element complemented", L::t_bdd(&rot)));
            }
        }
        (base, metas)
    });
    let _ = n;
    match r {
        Err(p) => fail(format!("bdd_complexity = {}", want), p),
        Ok((base, metas)) => {
            if base != want {
                return fail(format!("bdd_complexity = {} (shared complement-edge ROBDD, variable n-1 at the root, literal nodes not counted)", want), format!("{}", base));
            }
            for (what, v) in metas {
                if v != want {
                    return fail(format!("bdd_complexity of the {} = {}", what, want), format!("{}", v));
                }
            }
            Ok(want)
        }
    }
}

pub fn replay(case: &Case) -> Result<Verdict, String> {
    if case.opt("kind") == Some("tour") {
        return super::xsize::replay(case, &tour);
    }
    let st = parse_ty(case.get("ty")?)?;
    let n = case.usize("n")?;
    let mut fs = Vec::new();
    for part in case.get("fs")?.split(',').filter(|s| !s.is_empty()) {
        fs.push(TT::from_words(n, &parse_words(part)?).ok_or("malformed table")?);
    }
    fn go<L: Tab>(n: usize, fs: &[TT]) -> Verdict {
        check_one::<L>(n, fs, true).map(|_| ())
    }
    Ok(for_type!(st, n, go(n, &fs)))
}

fn step<L: Tab>(l: &mut Local, st: bool, n: usize, fs: &[TT], meta: bool) {
    l.states += 1;
    let k = if meta && !fs.is_empty() { if fs.len() >= 2 { 5 } else { 4 } } else { 1 };
    l.transitions += k;
    l.validated += k;
    match check_one::<L>(n, fs, meta) {
        Ok(c) => {
            let mut h = 0u64;
            for f in fs {
                h = h.rotate_left(9) ^ hash_words(&f.w);
            }
            l.digest ^= crate::engine::mix3(h, fs.len() as u64, c as u64);
            l.nontrivial += (c > 0) as u64;
        }
        Err(v) => {
            let sig = format!("C07/{}/{}", if st { "LutN" } else { "Lut" }, if fs.len() <= 1 { "single" } else { "list" });
            let key = format!("{:02}|{}|{}|{}", n, tyname(st), fs.len(), case_str(st, n, fs));
            l.violation(key, &sig, case_str(st, n, fs), v.0, v.1);
        }
    }
}

fn sweep_lists<L: Tab>(run: &Run, st: bool, n: usize, k: usize) {
    let size = 1u64 << nbits(n);
    let total = size.pow(k as u32);
    run.section(&format!("SWEEP all ordered {}-lists n={} {} (+ reverse/duplicate/complement transitions)", k, n, L::tname(n)), true, "complete: every ordered list of that length", total, 256, |r, l| {
        for idx in r {
            let mut x = idx;
            let mut fs = Vec::new();
            for _ in 0..k {
                fs.push(TT::from_u64(n, x % size));
                x /= size;
            }
            step::<L>(l, st, n, &fs, k <= 2 || idx % 16 == 0);
            if idx == total / 3 {
                l.sample(J::s(case_str(st, n, &fs)));
            }
        }
    });
}

fn structured<L: Tab>(run: &Run, st: bool, n: usize) {
    let level = if run.thorough() { 2 } else { 1 };
    let cap = if run.thorough() { if n <= 8 { 40000 } else { 16000 } } else if n <= 8 { 20000 } else { 6000 };
    let fam = alpha::family_capped(n, run.seed, level, cap);
    let pool = alpha::pool(n, run.seed);
    let total = fam.len() as u64;
    run.section(
        &format!("STRUCTURED lists n={} {}: (f) (f,!f) (f,flip f) (f,cof0,cof1) (f,g,f&g,f^g) over F(n)", n, L::tname(n)),
        false,
        &format!("|F(n)|={}; lists chosen to share sub-functions; level-5/level-6 boundary with arbitrary words", total),
        total,
        2,
        |r, l| {
            for k in r {
                let f = &fam[k as usize];
                let g = &pool[(k as usize * 5 + 1) % pool.len()];
                let i = (k as usize) % n.max(1);
                step::<L>(l, st, n, &[f.clone()], true);
                step::<L>(l, st, n, &[f.clone(), f.not()], false);
                if n > 0 {
                    step::<L>(l, st, n, &[f.clone(), f.flip(i)], true);
                    step::<L>(l, st, n, &[f.clone(), f.cof0(i), f.cof1(i)], k % 4 == 0);
                    step::<L>(l, st, n, &[f.swap(0, n - 1), f.clone(), f.cof1(n - 1)], false);
                }
                let fg_and = TT::pointwise(f, g, |a, b| a && b);
                let fg_xor = TT::pointwise(f, g, |a, b| a != b);
                step::<L>(l, st, n, &[f.clone(), g.clone(), fg_and, fg_xor], k % 4 == 1);
                if k == total / 2 {
                    l.sample(J::s(case_str(st, n, &[f.clone(), f.cof0(i), f.cof1(i)])));
                }
            }
        },
    );
}

/// The `level >= 6` kernel treats 64-bit words as atoms (it only looks inside a word to
/// normalise on bit 0): all tables whose words are drawn from {a, b, !a} with a even and b
/// odd — every sequence — and lists of such tables are the exhaustive small scope there.
fn word_sequences<L: Tab>(run: &Run, st: bool, n: usize) {
    let nw = crate::model::tt::nwords(n);
    let a = crate::engine::mix(run.seed ^ 0xC07A) & !1;
    let b = crate::engine::mix(run.seed ^ 0xC07B) | 1;
    // n = 7, 8: six words (constants, a, b and their complements); n = 9: four in quick, six in thorough
    let words: Vec<u64> = if n <= 8 || run.thorough() { vec![0, !0, a, !a, b, !b] } else { vec![0, !0, a, b] };
    let nl = words.len() as u64;
    let ntab = nl.pow(nw as u32);
    let table = |mut k: u64| -> TT {
        let mut w = Vec::with_capacity(nw);
        for _ in 0..nw {
            w.push(words[(k % nl) as usize]);
            k /= nl;
        }
        TT { n, w }
    };
    let (total, what) = if n == 7 {
        (ntab * ntab * ntab, "all ordered 3-lists of the 36 word-sequence tables, plus singles and pairs")
    } else if n == 8 {
        (ntab * ntab, "all ordered pairs of the 1296 word-sequence tables, plus singles and (t,u,t) sandwiches")
    } else {
        (ntab, "all word-sequence tables (4^8 quick / 6^8 thorough) as single functions, plus (t,u,t) sandwiches")
    };
    run.section(&format!("WORDSEQ n={} {}: tables over the word alphabet {{0, !0, a, !a, b, !b}}", n, L::tname(n)), false, what, total, 16, |r, l| {
        for idx in r {
            if n == 7 {
                let (x, y, z) = (idx / (ntab * ntab), (idx / ntab) % ntab, idx % ntab);
                step::<L>(l, st, n, &[table(x), table(y), table(z)], idx % 8 == 0);
                if y == 0 && z == 0 {
                    step::<L>(l, st, n, &[table(x)], true);
                }
                if z == 0 {
                    step::<L>(l, st, n, &[table(x), table(y)], true);
                }
            } else if n == 8 {
                let (x, y) = (idx / ntab, idx % ntab);
                step::<L>(l, st, n, &[table(x), table(y)], idx % 8 == 0);
                step::<L>(l, st, n, &[table(x), table(y), table(x)], false);
                if y == 0 {
                    step::<L>(l, st, n, &[table(x)], true);
                }
            } else {
                step::<L>(l, st, n, &[table(idx)], idx % 8 == 0);
                let u = table((idx * 7 + 1) % ntab);
                step::<L>(l, st, n, &[table(idx), u, table(idx)], false);
            }
            if idx == total / 2 {
                l.sample(J::s(case_str(st, n, &[table(idx % ntab)])));
            }
        }
    });
}

// ------------------------------------------------------------------------------ histories

fn check_ty(st: bool, n: usize, fs: &[TT]) -> Verdict {
    fn go<L: Tab>(n: usize, fs: &[TT]) -> Verdict {
        check_one::<L>(n, fs, false).map(|_| ())
    }
    for_type!(st, n, go(n, fs))
}

fn tour_sizes(thorough: bool) -> Vec<usize> {
    (0..=if thorough { 11 } else { 10 }).collect()
}

const WORDS_PER_TOUR: usize = 32;

/// "sizes": per size a batch of lists, every ordered pair of sizes consecutively;
/// "words": the same table words as lists of tables of consecutive sizes.
pub fn tour(which: &str, k: usize, thorough: bool) -> Result<super::xsize::Tour, String> {
    let mut t = super::xsize::Tour::new(format!("{}:{}", which, k));
    match which {
        "sizes" => {
            let sizes = tour_sizes(thorough);
            let a = *sizes.get(k).ok_or("no such tour")?;
            for s in super::xsize::size_pairs_from(a, &sizes) {
                let mut fam: Vec<TT> = alpha::named(s).into_iter().take(4).collect();
                let pats = alpha::word_patterns(s, 0, 0);
                fam.push(pats[pats.len() - 1].clone());
                let mut lists: Vec<Vec<TT>> = vec![Vec::new()];
                for (i, f) in fam.iter().enumerate() {
                    lists.push(vec![f.clone()]);
                    let g = &fam[(i + 1) % fam.len()];
                    lists.push(vec![f.clone(), g.clone()]);
                    lists.push(vec![g.clone(), f.not(), TT::pointwise(f, g, |x, y| x != y), f.clone()]);
                }
                for fs in lists {
                    for st in [false, true] {
                        let fs2 = fs.clone();
                        t.push(format!("{} n={} list of {} [{}]", if st { "LutN" } else { "Lut" }, s, fs2.len(), fs2.iter().map(|f| fmt_words(&f.w)).collect::<Vec<_>>().join(",")), move || check_ty(st, s, &fs2));
                    }
                }
            }
        }
        "words" => {
            let chunk: Vec<u64> = (0..256u64).skip(k * WORDS_PER_TOUR).take(WORDS_PER_TOUR).collect();
            if chunk.is_empty() {
                return Err("no such tour".into());
            }
            for w in chunk {
                let sizes: Vec<usize> = (0..=8usize).filter(|n| *n >= 6 || w >> nbits(*n) == 0).collect();
                for st in [false, true] {
                    for s in super::xsize::size_pairs(&sizes) {
                        let mk1 = |x: u64| {
                            let mut words = vec![0u64; crate::model::tt::nwords(s)];
                            words[0] = x;
                            alpha::tt_words(s, words)
                        };
                        let fs = if w % 2 == 0 { vec![mk1(w)] } else { vec![mk1(w), mk1(w >> 1)] };
                        t.push(format!("{} n={} list [{}]", if st { "LutN" } else { "Lut" }, s, fs.iter().map(|f| fmt_words(&f.w)).collect::<Vec<_>>().join(",")), move || check_ty(st, s, &fs));
                    }
                }
            }
        }
        _ => return Err(format!("unknown tour family {}", which)),
    }
    Ok(t)
}

fn histories(run: &Run) {
    let th = run.thorough();
    super::xsize::run_tours(run, "C07", "sizes (a batch of lists per size, every ordered pair of sizes consecutively)", "sizes 0..=10 (thorough 11); per size the empty list and 15 lists of 1, 2 and 4 tables over 5 tables; both types; the count must not depend on what was analysed before on the thread", tour_sizes(th).len(), &|k| tour("sizes", k, th).unwrap());
    super::xsize::run_tours(run, "C07", "words (the same table words as lists of tables of consecutive sizes)", "all 256 words of 3-variable tables as tables of every size 0..=8 they fit (odd words: a two-element list with the word shifted); every ordered pair of sizes; both types", 256 / WORDS_PER_TOUR, &|k| tour("words", k, th).unwrap());
}

pub fn run(run: &Run) {
    if let Err(e) = bdd::self_check() {
        run.machinery(format!("robdd model self-check: {}", e));
        return;
    }
    run.set_rule("state = an ordered list of 0..4 tables of the same n; transitions = bdd_complexity of the list, of the reversed list, of the list with a duplicate, with an element complemented; non-trivial = the count is positive");
    run.assume("reference model: textbook unique-table ROBDD with complemented edges (model::bdd), literal nodes (both children terminal) not counted");
    fn sl<L: Tab>(run: &Run, st: bool, n: usize, k: usize) {
        sweep_lists::<L>(run, st, n, k)
    }
    fn sx<L: Tab>(run: &Run, st: bool, n: usize) {
        structured::<L>(run, st, n)
    }
    for st in [false, true] {
        for n in 0..=4usize {
            for_type!(st, n, sl(run, st, n, 0));
            for_type!(st, n, sl(run, st, n, 1));
        }
        for n in 0..=3usize {
            for_type!(st, n, sl(run, st, n, 2));
        }
        for n in 0..=2usize {
            for_type!(st, n, sl(run, st, n, 3));
            for_type!(st, n, sl(run, st, n, 4));
        }
        if run.thorough() {
            for_type!(st, 3, sl(run, st, 3, 3));
        }
    }
    for n in 4..=11usize {
        for st in [false, true] {
            for_type!(st, n, sx(run, st, n));
        }
    }
    fn ws<L: Tab>(run: &Run, st: bool, n: usize) {
        word_sequences::<L>(run, st, n)
    }
    for n in 7..=9usize {
        if n == 8 && run.profile == "checked" && !run.thorough() {
            // the largest section; the second configuration keeps n = 7 and n = 9
            continue;
        }
        for st in [false, true] {
            for_type!(st, n, ws(run, st, n));
        }
    }
    fn em<L: Tab>(run: &Run, st: bool, n: usize) {
        let fam = alpha::embedded3(n, false);
        run.section(&format!("EMBEDDED n={} {}: every 3-variable function at ordered variable triples, as (f) and (f, next f)", n, L::tname(n)), false, &format!("{} tables g(x_a,x_b,x_c); single functions with the metamorphic list operations, and pairs of neighbours", fam.len()), fam.len() as u64, 8, |r, l| {
            for k in r {
                let f = &fam[k as usize];
                step::<L>(l, st, n, std::slice::from_ref(f), k % 8 == 0);
                let g = &fam[(k as usize + 1) % fam.len()];
                step::<L>(l, st, n, &[f.clone(), g.clone()], false);
            }
        });
    }
    for n in 7..=9usize {
        for st in [false, true] {
            for_type!(st, n, em(run, st, n));
        }
    }
    histories(run);
    let _ = for_static!(0, nop());
}

fn nop<L: Tab>() {}
