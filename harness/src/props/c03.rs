//! C03 — flip, swap, cofactors and Shannon recomposition are exact.
//!
//! State: one table (two for from_cofactors). Transitions: flip / swap / swap_adjacent in both
//! copying and in-place forms for every index (pair), cofactors(i), from_cofactors(c0,c1,i)
//! and the round trip. Oracle: the index maps of the statement (model::tt).

use super::common::*;
use crate::api::Tab;
use crate::engine::json::J;
use crate::engine::{fmt_words, guarded, hash_words, Case, Local, Run};
use crate::model::alpha;
use crate::model::tt::{exchange_bits, nbits, Gather32, TT};
use crate::{for_static, for_type};

pub const OPS: [&str; 9] = ["flip", "flip_inplace", "swap", "swap_inplace", "swap_adjacent", "swap_adjacent_inplace", "cofactors", "roundtrip", "from_cofactors"];

fn case_str(st: bool, n: usize, t: &[u64], u: &[u64], op: &str, i: usize, j: usize) -> String {
    format!("ty={};n={};t={};u={};op={};i={};j={}", tyname(st), n, fmt_words(t), fmt_words(u), op, i, j)
}

/// By the book: one transition. Returns (hash of the successor observation, non-trivial?).
pub fn check_one<L: Tab>(t: &TT, u: &TT, op: &str, i: usize, j: usize) -> Result<(u64, bool), (String, String)> {
    let n = t.n;
    let what = format!("{}({},{})", op, i, j);
    match op {
        "flip" | "flip_inplace" | "swap" | "swap_inplace" | "swap_adjacent" | "swap_adjacent_inplace" => {
            let model = match op {
                "flip" | "flip_inplace" => t.flip(i),
                "swap" | "swap_inplace" => t.swap(i, j),
                _ => t.swap(i, i + 1),
            };
            let r = guarded(|| {
                let l: L = mk_tt(t);
                match op {
                    "flip" => (l.t_flip(i), l),
                    "swap" => (l.t_swap(i, j), l),
                    "swap_adjacent" => l.t_swap_adjacent(i),
                    "flip_inplace" => {
                        let mut x = l.clone();
                        x.t_flip_inplace(i);
                        (x, l)
                    }
                    "swap_inplace" => {
                        let mut x = l.clone();
                        x.t_swap_inplace(i, j);
                        (x, l)
                    }
                    _ => {
                        let mut x = l.clone();
                        x.t_swap_adjacent_inplace(i);
                        (x, l)
                    }
                }
            });
            match r {
                Err(p) => fail(format!("{} returns {}", what, show_tt(&model)), p),
                Ok((res, recv)) => {
                    same_function(&what, &res, &model)?;
                    if recv.t_blocks() != &t.w[..] {
                        return fail(format!("{} leaves its receiver {}", what, show_tt(t)), show(&recv));
                    }
                    Ok((hash_words(res.t_blocks()), model != *t))
                }
            }
        }
        "cofactors" | "roundtrip" => {
            let (m0, m1) = (t.cof0(i), t.cof1(i));
            let r = guarded(|| {
                let l: L = mk_tt(t);
                let (c0, c1) = l.t_cofactors(i);
                let back = if op == "roundtrip" { Some(L::t_from_cofactors(&c0, &c1, i)) } else { None };
                (c0, c1, back, l)
            });
            match r {
                Err(p) => fail(format!("{} returns ({}, {})", what, show_tt(&m0), show_tt(&m1)), p),
                Ok((c0, c1, back, recv)) => {
                    same_function(&format!("{}.0", what), &c0, &m0)?;
                    same_function(&format!("{}.1", what), &c1, &m1)?;
                    // independence of x_i, stated on the subject's own values
                    for m in 0..nbits(n) {
                        let m2 = m ^ (1usize << i);
                        if c0.t_value(m) != c0.t_value(m2) || c1.t_value(m) != c1.t_value(m2) {
                            return fail(format!("{}: both cofactors independent of x{}", what, i), format!("({}, {}) differ on assignments {} / {}", show(&c0), show(&c1), m, m2));
                        }
                    }
                    if let Some(b) = back {
                        same_function(&format!("from_cofactors(cofactors(f,{}),{})", i, i), &b, t)?;
                    }
                    if recv.t_blocks() != &t.w[..] {
                        return fail(format!("{} leaves its receiver {}", what, show_tt(t)), show(&recv));
                    }
                    Ok((hash_words(c0.t_blocks()) ^ hash_words(c1.t_blocks()).rotate_left(7), m0 != m1))
                }
            }
        }
        "from_cofactors" => {
            let model = TT::from_cofactors(t, u, i);
            let r = guarded(|| {
                let c0: L = mk_tt(t);
                let c1: L = mk_tt(u);
                (L::t_from_cofactors(&c0, &c1, i), c0, c1)
            });
            match r {
                Err(p) => fail(format!("{} returns {}", what, show_tt(&model)), p),
                Ok((res, c0, c1)) => {
                    same_function(&what, &res, &model)?;
                    if c0.t_blocks() != &t.w[..] || c1.t_blocks() != &u.w[..] {
                        return fail("from_cofactors leaves its arguments unchanged", format!("({}, {})", show(&c0), show(&c1)));
                    }
                    Ok((hash_words(res.t_blocks()), model != *t && model != *u))
                }
            }
        }
        _ => Err(("harness".into(), format!("unknown op {}", op))),
    }
}

/// One tour per first size: a batch of every operation per size, every ordered pair of sizes.
pub fn tour(which: &str, k: usize, thorough: bool) -> Result<super::xsize::Tour, String> {
    if which != "sizes" {
        return Err("no such tour".into());
    }
    let sizes: Vec<usize> = (1..=if thorough { 12 } else { 10 }).collect();
    let a0 = *sizes.get(k).ok_or("no such tour")?;
    let mut t = super::xsize::Tour::new(format!("sizes:{}", k));
    for s in super::xsize::size_pairs_from(a0, &sizes) {
        let pats = alpha::word_patterns(s, 0, 0);
        let f = pats[pats.len() - 1].clone();
        let g = TT::from_fn(s, |m| alpha::popcount(m) % 3 == 1 || m == 0);
        let idx: Vec<(usize, usize)> = vec![(0, s - 1), (s - 1, 0), (s / 2, (s / 2 + 1) % s), (s.saturating_sub(2), s - 1)];
        for (i, j) in idx {
            for op in OPS {
                if (op.starts_with("swap_adjacent") && i + 1 >= s) || (op.starts_with("swap") && !op.starts_with("swap_adjacent") && i == j) {
                    continue;
                }
                for st in [false, true] {
                    let (f2, g2) = (f.clone(), g.clone());
                    t.push(format!("{} {}({},{}) n={}", if st { "LutN" } else { "Lut" }, op, i, j, s), move || {
                        fn go<L: Tab>(t: &TT, u: &TT, op: &str, i: usize, j: usize) -> Verdict {
                            check_one::<L>(t, u, op, i, j).map(|_| ())
                        }
                        for_type!(st, f2.n, go(&f2, &g2, op, i, j))
                    });
                }
            }
        }
    }
    Ok(t)
}

pub fn replay(case: &Case) -> Result<Verdict, String> {
    if case.opt("kind") == Some("tour") {
        return super::xsize::replay(case, &tour);
    }
    let st = parse_ty(case.get("ty")?)?;
    let n = case.usize("n")?;
    let t = TT::from_words(n, &case.words("t")?).ok_or("t malformed")?;
    let u = TT::from_words(n, &case.words("u")?).ok_or("u malformed")?;
    let op = case.get("op")?.to_string();
    let (i, j) = (case.usize("i")?, case.usize("j")?);
    fn go<L: Tab>(t: &TT, u: &TT, op: &str, i: usize, j: usize) -> Verdict {
        check_one::<L>(t, u, op, i, j).map(|_| ())
    }
    Ok(for_type!(st, n, go(&t, &u, &op, i, j)))
}

fn report(l: &mut Local, st: bool, t: &TT, u: &TT, op: &str, i: usize, j: usize, v: (String, String)) {
    let regime = |x: usize| if x <= 5 { "lo" } else { "hi" };
    let sig = format!("C03/{}/{}/{}{}", if st { "LutN" } else { "Lut" }, op, regime(i), if op.starts_with("swap") && !op.contains("adjacent") { regime(j) } else { "" });
    let key = format!("{:02}|{}|{}|{:02}|{:02}|{:>40}|{}", t.n, tyname(st), op, i, j, fmt_words(&t.w), fmt_words(&u.w));
    l.violation(key, &sig, case_str(st, t.n, &t.w, &u.w, op, i, j), v.0, v.1);
}

fn step<L: Tab>(l: &mut Local, st: bool, t: &TT, u: &TT, op_idx: usize, i: usize, j: usize) {
    let op = OPS[op_idx];
    match check_one::<L>(t, u, op, i, j) {
        Ok((h, nt)) => {
            l.tr(hash_words(&t.w) ^ hash_words(&u.w).rotate_left(3), (op_idx * 4096 + i * 64 + j) as u64, h);
            l.nontrivial += nt as u64;
        }
        Err(v) => {
            l.transitions += 1;
            l.validated += 1;
            report(l, st, t, u, op, i, j, v);
        }
    }
}

/// every unary transition from one table
fn all_unary<L: Tab>(l: &mut Local, st: bool, t: &TT) {
    let n = t.n;
    l.states += 1;
    for i in 0..n {
        step::<L>(l, st, t, t, 0, i, 0);
        step::<L>(l, st, t, t, 1, i, 0);
        for j in 0..n {
            step::<L>(l, st, t, t, 2, i, j);
            step::<L>(l, st, t, t, 3, i, j);
        }
        if i + 1 < n {
            step::<L>(l, st, t, t, 4, i, 0);
            step::<L>(l, st, t, t, 5, i, 0);
        }
        step::<L>(l, st, t, t, 6, i, 0);
        step::<L>(l, st, t, t, 7, i, 0);
    }
}

fn sweep_unary<L: Tab>(run: &Run, st: bool, n: usize) {
    let size = 1u64 << nbits(n);
    let name = format!("SWEEP all tables n={} {} x flip/swap/adjacent/cofactors/roundtrip, all indices", n, L::tname(n));
    run.section(&name, true, "complete: every n-variable function, every index (pair), copying and in-place forms", size, 64, |r, l| {
        for x in r {
            let t = TT::from_u64(n, x);
            all_unary::<L>(l, st, &t);
            if x == size / 3 {
                l.sample(J::s(case_str(st, n, &t.w, &t.w, "swap", 0, n - 1)));
            }
        }
    });
}

fn sweep_from_cofactors<L: Tab>(run: &Run, st: bool, n: usize) {
    let size = 1u64 << nbits(n);
    let name = format!("SWEEP all ordered pairs n={} {} x from_cofactors(c0,c1,i), all i", n, L::tname(n));
    run.section(&name, true, "complete: every ordered pair of n-variable functions", size * size, 1024, |r, l| {
        for idx in r {
            let (a, b) = (idx / size, idx % size);
            let (t, u) = (TT::from_u64(n, a), TT::from_u64(n, b));
            l.states += 1;
            for i in 0..n {
                step::<L>(l, st, &t, &u, 8, i, 0);
            }
        }
    });
}

/// n = 5, complete, on the encoding through compiled index maps (thorough).
fn sweep5_static(run: &Run) {
    let n = 5usize;
    let mut maps: Vec<(usize, usize, usize, Gather32)> = Vec::new(); // (kind, i, j, map): kind 0 flip, 1 swap, 2 cof0, 3 cof1
    for i in 0..n {
        maps.push((0, i, 0, Gather32::compile(n, |y| y ^ (1 << i))));
        maps.push((2, i, 0, Gather32::compile(n, |y| y & !(1 << i))));
        maps.push((3, i, 0, Gather32::compile(n, |y| y | (1 << i))));
        for j in 0..n {
            maps.push((1, i, j, Gather32::compile(n, |y| exchange_bits(y, i, j))));
        }
    }
    run.section("SWEEP all 2^32 tables n=5 Lut5 x flip/swap/cofactors/roundtrip, all indices", true, "complete: every 5-variable function, every index (pair)", 1u64 << 32, 1 << 18, |r, l| {
        for x in r {
            let xx = x as u32;
            let res = guarded(|| {
                let la = volute::Lut5::from_blocks(&[x]);
                let mut bad = 0u64;
                let mut h = 0u64;
                let mut nt = 0u64;
                let mut c0s = [0u64; 5];
                for (k, (kind, i, j, g)) in maps.iter().enumerate() {
                    let want = g.apply(xx) as u64;
                    let got = match kind {
                        0 => la.flip(*i).blocks()[0],
                        1 => la.swap(*i, *j).blocks()[0],
                        2 => {
                            let c = la.cofactors(*i);
                            c0s[*i] = c.0.blocks()[0];
                            c.0.blocks()[0]
                        }
                        _ => {
                            let c = la.cofactors(*i);
                            let back = volute::Lut5::from_cofactors(&c.0, &c.1, *i);
                            if back.blocks()[0] != x || c.0.blocks()[0] != c0s[*i] {
                                bad |= 1 << k;
                            }
                            c.1.blocks()[0]
                        }
                    };
                    if got != want {
                        bad |= 1 << k;
                    }
                    nt += (want != x) as u64;
                    h ^= crate::engine::mix3(x, k as u64, got);
                }
                (bad, h, nt)
            });
            l.states += 1;
            l.transitions += maps.len() as u64;
            l.validated += maps.len() as u64;
            match res {
                Ok((0, h, nt)) => {
                    l.digest ^= h;
                    l.nontrivial += nt;
                }
                _ => {
                    // by the book on this table
                    let t = TT::from_u64(n, x);
                    let before = l.viol_count;
                    all_unary::<volute::Lut5>(l, true, &t);
                    if l.viol_count == before {
                        run.machinery(format!("C03 fast and slow paths disagree on Lut5 table {:x}", x));
                    }
                }
            }
        }
    });
}

/// n = 5 dynamic type, complete for the in-place flips and swaps (involutions, so no spare
/// allocation); cofactors of the dynamic type are covered for n<=4 and on the alphabet.
fn sweep5_dynamic(run: &Run) {
    let n = 5usize;
    let mut maps: Vec<(usize, usize, usize, Gather32)> = Vec::new();
    for i in 0..n {
        maps.push((0, i, 0, Gather32::compile(n, |y| y ^ (1 << i))));
        for j in 0..n {
            maps.push((1, i, j, Gather32::compile(n, |y| exchange_bits(y, i, j))));
        }
    }
    run.section("SWEEP all 2^32 tables n=5 Lut x flip_inplace/swap_inplace, all indices", true, "complete for the in-place flips and swaps of the dynamic type", 1u64 << 32, 1 << 18, |r, l| {
        for x in r {
            let xx = x as u32;
            let res = guarded(|| {
                let mut la = volute::Lut::from_blocks(n, &[x]);
                let mut bad = 0u64;
                let mut h = 0u64;
                for (k, (kind, i, j, g)) in maps.iter().enumerate() {
                    let want = g.apply(xx) as u64;
                    if *kind == 0 {
                        la.flip_inplace(*i);
                    } else {
                        la.swap_inplace(*i, *j);
                    }
                    let got = la.blocks()[0];
                    if *kind == 0 {
                        la.flip_inplace(*i);
                    } else {
                        la.swap_inplace(*j, *i);
                    }
                    if got != want || la.blocks()[0] != x {
                        bad |= 1 << k;
                    }
                    h ^= crate::engine::mix3(x, k as u64, got);
                }
                (bad, h)
            });
            l.states += 1;
            l.transitions += 2 * maps.len() as u64;
            l.validated += 2 * maps.len() as u64;
            match res {
                Ok((0, h)) => l.digest ^= h,
                _ => {
                    let t = TT::from_u64(n, x);
                    let before = l.viol_count;
                    all_unary::<volute::Lut>(l, false, &t);
                    if l.viol_count == before {
                        run.machinery(format!("C03 fast and slow paths disagree on Lut n=5 table {:x}", x));
                    }
                }
            }
        }
    });
}

/// n = 4: from_cofactors on all 2^32 ordered pairs (thorough), on the encoding.
fn sweep4_from_cofactors(run: &Run) {
    let n = 4usize;
    let size = 1u64 << 16;
    // selector masks from the definition: bit y set iff x_i = 1 in assignment y
    let sel: Vec<u64> = (0..n).map(|i| TT::from_fn(n, |y| (y >> i) & 1 != 0).w[0]).collect();
    run.section("SWEEP all 2^32 ordered pairs n=4 Lut4 x from_cofactors(c0,c1,i), all i", true, "complete", size * size, 1 << 20, |r, l| {
        for idx in r {
            let (a, b) = (idx / size, idx % size);
            let res = guarded(|| {
                let c0 = volute::Lut4::from_blocks(&[a]);
                let c1 = volute::Lut4::from_blocks(&[b]);
                let mut bad = 0u32;
                let mut h = 0u64;
                for i in 0..n {
                    let got = volute::Lut4::from_cofactors(&c0, &c1, i).blocks()[0];
                    let want = (b & sel[i]) | (a & !sel[i] & 0xffff);
                    if got != want {
                        bad |= 1 << i;
                    }
                    h ^= crate::engine::mix3(idx, i as u64, got);
                }
                (bad, h)
            });
            l.states += 1;
            l.transitions += n as u64;
            l.validated += n as u64;
            l.nontrivial += (a != b) as u64;
            match res {
                Ok((0, h)) => l.digest ^= h,
                _ => {
                    let (t, u) = (TT::from_u64(n, a), TT::from_u64(n, b));
                    let before = l.viol_count;
                    for i in 0..n {
                        if let Err(v) = check_one::<volute::Lut4>(&t, &u, "from_cofactors", i, 0) {
                            report(l, true, &t, &u, "from_cofactors", i, 0, v);
                        }
                    }
                    if l.viol_count == before {
                        run.machinery(format!("C03 fast and slow paths disagree on from_cofactors Lut4 {:x} {:x}", a, b));
                    }
                }
            }
        }
    });
}

fn alphabet<L: Tab>(run: &Run, st: bool, n: usize) {
    let level = if run.thorough() { 2 } else { 1 };
    let cap = match (n, run.thorough()) {
        (0..=9, _) => 100000,
        (10, false) => 6100,
        (11, false) => 2800,
        (12, false) => 5100,
        (13, false) => 600,
        (_, false) => 360,
        (10, true) => 100000,
        (11, true) => 31000,
        (12, true) => 16000,
        (13, true) => 6000,
        (_, true) => 2500,
    };
    let fam = alpha::family_capped(n, run.seed, level, cap);
    let pool = alpha::pool(n, run.seed);
    let name = format!("ALPHABET F({}) {} x all flips/swaps/adjacent/cofactors/roundtrip + from_cofactors with pool", n, L::tname(n));
    let total = fam.len() as u64;
    run.section(&name, false, &format!("|F(n)|={} (level {} capped at {}), all (i,j) in all three storage regimes; from_cofactors(t, p, i) for p in pool (|pool|={}) and all i", fam.len(), level, cap, pool.len()), total, 1, |r, l| {
        for k in r {
            let t = &fam[k as usize];
            all_unary::<L>(l, st, t);
            let p1 = &pool[(k as usize) % pool.len()];
            let p2 = &pool[(k as usize * 7 + 3) % pool.len()];
            for i in 0..n {
                step::<L>(l, st, t, p1, 8, i, 0);
                step::<L>(l, st, p2, t, 8, i, 0);
            }
            if k == total / 2 {
                l.sample(J::s(case_str(st, n, &t.w, &t.w, "swap_inplace", n - 1, 0)));
            }
        }
    });
}

/// every 3-variable function embedded at ordered variable triples (model::alpha::embedded3)
fn embedded<L: Tab>(run: &Run, st: bool, n: usize) {
    let fam = alpha::embedded3(n, run.thorough() && n <= 8);
    let total = fam.len() as u64;
    run.section(&format!("EMBEDDED n={} {}: every 3-variable function at ordered variable triples x all flips/swaps/adjacent/cofactors/roundtrip + from_cofactors", n, L::tname(n)), false, &format!("{} tables g(x_a,x_b,x_c): multiplexers and gates of literals in every index regime; all (i,j)", total), total, 4, |r, l| {
        for k in r {
            let t = &fam[k as usize];
            all_unary::<L>(l, st, t);
            let u = &fam[(k as usize * 31 + 7) % fam.len()];
            for i in 0..n {
                step::<L>(l, st, t, u, 8, i, 0);
            }
        }
    });
}

pub fn run(run: &Run) {
    run.set_rule("state = one table (a pair for from_cofactors); transition = one transform call with concrete indices; non-trivial = the model successor differs from the argument (for cofactors: the two cofactors differ)");
    run.assume("reference model: index maps of the statement evaluated per assignment (model::tt flip/swap/cof0/cof1/from_cofactors)");
    fn su<L: Tab>(run: &Run, st: bool, n: usize) {
        sweep_unary::<L>(run, st, n)
    }
    fn sf<L: Tab>(run: &Run, st: bool, n: usize) {
        sweep_from_cofactors::<L>(run, st, n)
    }
    fn al<L: Tab>(run: &Run, st: bool, n: usize) {
        alphabet::<L>(run, st, n)
    }
    for n in 1..=4usize {
        for st in [false, true] {
            for_type!(st, n, su(run, st, n));
            if n <= 3 {
                for_type!(st, n, sf(run, st, n));
            }
        }
    }
    if run.thorough() {
        sweep5_static(run);
        sweep5_dynamic(run);
        sweep4_from_cofactors(run);
    }
    for n in 5..=14usize {
        al::<volute::Lut>(run, false, n);
        if n <= 12 {
            for_static!(n, al(run, true, n));
        }
    }
    fn em<L: Tab>(run: &Run, st: bool, n: usize) {
        embedded::<L>(run, st, n)
    }
    for n in 7..=9usize {
        for st in [false, true] {
            for_type!(st, n, em(run, st, n));
        }
    }
    let th = run.thorough();
    super::xsize::run_tours(run, "C03", "sizes (every transform and cofactor operation per size, every ordered pair of sizes consecutively)", "sizes 1..=10 (thorough 12); two tables x 4 index pairs x 9 operations x both types per visit; results must not depend on what was transformed before on the thread", if th { 12 } else { 10 }, &|k| tour("sizes", k, th).unwrap());
}
