//! C08 — ordering is numeric order of the table; all_functions enumerates it fully.
//!
//! Ordering: state = pair/triple of tables; transitions = cmp, <, <=, ==, max, sort; oracle =
//! numeric comparison bit by bit from the all-ones assignment down (n first for Lut) and the
//! lexicographic order of the model's fixed-width hex strings.
//! Iterator: state = current table; transition = next(); oracle = numeric successor; complete
//! runs for small n, hooked single steps (H2) from tables whose low words are all ones.
//! Profile-sensitive (the carry uses `+`): the iterator part also runs in the checked binary.

use super::common::*;
use crate::api::Tab;
use crate::engine::json::J;
use crate::engine::{child_run, fmt_words, guarded, hash_words, Case, Local, Run};
use crate::model::alpha;
use crate::model::tt::{nbits, nwords, TT};
use crate::{for_static, for_type};
use std::cmp::Ordering;

// ------------------------------------------------------------------------------- ordering

fn cmp_pair<L: Tab>(a: &TT, b: &TT) -> Verdict {
    let want = a.cmp_full(b);
    let r = guarded(|| {
        let la: L = mk_tt(a);
        let lb: L = mk_tt(b);
        (la.cmp(&lb), la.partial_cmp(&lb), la < lb, la <= lb, la == lb, la > lb, la >= lb, lb.cmp(&la), std::cmp::max(la.clone(), lb.clone()).t_blocks().to_vec(), std::cmp::min(la.clone(), lb.clone()).t_blocks().to_vec(), la.t_hex().cmp(&lb.t_hex()))
    });
    match r {
        Err(p) => fail(format!("cmp = {:?}", want), p),
        Ok((c, pc, lt, le, eq, gt, ge, rc, mx, mn, hexord)) => {
            if c != want {
                return fail(format!("cmp = {:?} (numeric order, most significant bit = all-ones assignment{})", want, if a.n != b.n { "; number of variables first" } else { "" }), format!("{:?}", c));
            }
            if pc != Some(want) || lt != (want == Ordering::Less) || le != (want != Ordering::Greater) || eq != (want == Ordering::Equal) || gt != (want == Ordering::Greater) || ge != (want != Ordering::Less) || rc != want.reverse() {
                return fail(format!("partial_cmp/</<=/==/>/>= and the reversed comparison consistent with cmp = {:?}", want), format!("partial_cmp={:?} <:{} <=:{} ==:{} >:{} >=:{} reverse={:?}", pc, lt, le, eq, gt, ge, rc));
            }
            let (wmx, wmn) = if want == Ordering::Greater { (a, b) } else { (b, a) };
            if mx != wmx.w || (mn != wmn.w && want != Ordering::Equal) {
                return fail(format!("max = [{}], min = [{}]", fmt_words(&wmx.w), fmt_words(&wmn.w)), format!("max = [{}], min = [{}]", fmt_words(&mx), fmt_words(&mn)));
            }
            if a.n == b.n {
                let hx = a.hex().cmp(&b.hex());
                if hx != want {
                    return Err(("harness".into(), format!("model hex order {:?} vs model numeric order {:?}", hx, want)));
                }
                if hexord != want {
                    return fail(format!("lexicographic order of the fixed-width hex strings = {:?}", want), format!("{:?}", hexord));
                }
            }
            Ok(())
        }
    }
}

fn case_pair(st: bool, a: &TT, b: &TT) -> String {
    format!("ty={};kind=pair;n={};na={};a={};b={}", tyname(st), b.n, a.n, fmt_words(&a.w), fmt_words(&b.w))
}

fn report_pair(l: &mut Local, st: bool, a: &TT, b: &TT, v: (String, String)) {
    let sig = format!("C08/{}/cmp/{}", if st { "LutN" } else { "Lut" }, if a.n != b.n { "cross-size" } else if nwords(a.n) > 1 { "multi-word" } else { "one-word" });
    let key = format!("{:02}|{}|pair|{:02}|{}|{}", b.n, tyname(st), a.n, fmt_words(&a.w), fmt_words(&b.w));
    l.violation(key, &sig, case_pair(st, a, b), v.0, v.1);
}

fn pairs_small<L: Tab>(run: &Run, st: bool, n: usize) {
    let size = 1u64 << nbits(n);
    run.section(&format!("ORDER all ordered pairs n={} {}{}", n, L::tname(n), if st { "" } else { " + all cross-size pairs with smaller n" }), true, "complete: cmp, partial_cmp, <, <=, ==, >, >=, max, min on every ordered pair", size * size, 1024, |r, l| {
        for idx in r {
            let (x, y) = (idx / size, idx % size);
            let (a, b) = (TT::from_u64(n, x), TT::from_u64(n, y));
            l.states += 1;
            l.nontrivial += (x != y) as u64;
            match cmp_pair::<L>(&a, &b) {
                Ok(()) => l.tr(x, y, 10),
                Err(v) => report_pair(l, st, &a, &b, v),
            }
            if !st && y == 0 {
                for m in 0..n {
                    for c in 0..(1u64 << nbits(m)) {
                        let s = TT::from_u64(m, c);
                        l.states += 2;
                        l.nontrivial += 2;
                        for (p, q) in [(&s, &a), (&a, &s)] {
                            match cmp_pair::<L>(p, q) {
                                Ok(()) => l.tr(x, c, m as u64),
                                Err(v) => report_pair(l, st, p, q, v),
                            }
                        }
                    }
                }
            }
            if idx == size * size / 3 {
                l.sample(J::s(case_pair(st, &a, &b)));
            }
        }
    });
}

fn triple<L: Tab>(a: &TT, b: &TT, c: &TT) -> Verdict {
    let mut want = vec![a.clone(), b.clone(), c.clone()];
    want.sort_by(|x, y| x.cmp_full(y));
    let r = guarded(|| {
        let ls: Vec<L> = [a, b, c].iter().map(|t| mk_tt::<L>(t)).collect();
        let mut s = ls.clone();
        s.sort();
        let ab = ls[0].cmp(&ls[1]);
        let bc = ls[1].cmp(&ls[2]);
        let ac = ls[0].cmp(&ls[2]);
        (s.iter().map(|x| x.t_blocks().to_vec()).collect::<Vec<_>>(), ab, bc, ac)
    });
    match r {
        Err(p) => fail("sort of the triple returns", p),
        Ok((s, ab, bc, ac)) => {
            let w: Vec<Vec<u64>> = want.iter().map(|t| t.w.clone()).collect();
            if s != w {
                return fail(format!("sort = {:?}", w), format!("{:?}", s));
            }
            if ab != Ordering::Greater && bc != Ordering::Greater && ac == Ordering::Greater {
                return fail("transitivity: a<=b and b<=c imply a<=c", format!("a?b={:?} b?c={:?} a?c={:?}", ab, bc, ac));
            }
            if ab == Ordering::Equal && ac != bc {
                return fail("a==b implies cmp(a,c)==cmp(b,c)", format!("a?c={:?} b?c={:?}", ac, bc));
            }
            Ok(())
        }
    }
}

fn triples<L: Tab>(run: &Run, st: bool, n: usize) {
    let size = 1u64 << nbits(n);
    run.section(&format!("ORDER all ordered triples n={} {} (sort, transitivity)", n, L::tname(n)), true, "complete", size * size * size, 4096, |r, l| {
        for idx in r {
            let (x, y, z) = (idx / (size * size), (idx / size) % size, idx % size);
            l.states += 1;
            l.nontrivial += (x != y && y != z && x != z) as u64;
            let (a, b, c) = (TT::from_u64(n, x), TT::from_u64(n, y), TT::from_u64(n, z));
            match triple::<L>(&a, &b, &c) {
                Ok(()) => l.tr(x, y, z),
                Err(v) => {
                    let key = format!("{:02}|{}|triple|{:x}|{:x}|{:x}", n, tyname(st), x, y, z);
                    l.violation(key, &format!("C08/{}/triple", if st { "LutN" } else { "Lut" }), format!("ty={};kind=triple;n={};a={:x};b={:x};c={:x}", tyname(st), n, x, y, z), v.0, v.1);
                }
            }
        }
    });
}

/// n = 4, all 2^32 ordered pairs on the encoding (thorough)
fn pairs4(run: &Run) {
    let size = 1u64 << 16;
    run.section("ORDER all 2^32 ordered pairs n=4 Lut4 and Lut (cmp, ==)", true, "complete", size * size, 1 << 20, |r, l| {
        let mut cur = u64::MAX;
        let mut da = volute::Lut::zero(4);
        for idx in r {
            let (x, y) = (idx / size, idx % size);
            let res = guarded(|| {
                let (a, b) = (volute::Lut4::from_blocks(&[x]), volute::Lut4::from_blocks(&[y]));
                if cur != x {
                    da = volute::Lut::from_blocks(4, &[x]);
                    cur = x;
                }
                let db = volute::Lut::from_blocks(4, &[y]);
                a.cmp(&b) == x.cmp(&y) && (a == b) == (x == y) && da.cmp(&db) == x.cmp(&y) && (da == db) == (x == y)
            });
            l.states += 1;
            l.nontrivial += (x != y) as u64;
            match res {
                Ok(true) => l.tr(x, y, 4),
                _ => {
                    let (a, b) = (TT::from_u64(4, x), TT::from_u64(4, y));
                    let mut found = false;
                    if let Err(v) = cmp_pair::<volute::Lut4>(&a, &b) {
                        report_pair(l, true, &a, &b, v);
                        found = true;
                    }
                    if let Err(v) = cmp_pair::<volute::Lut>(&a, &b) {
                        report_pair(l, false, &a, &b, v);
                        found = true;
                    }
                    if !found {
                        run.machinery(format!("C08 fast and slow paths disagree on n=4 pair {:x} {:x}", x, y));
                    }
                }
            }
        }
    });
}

fn pairs_large<L: Tab>(run: &Run, st: bool, n: usize) {
    let bases = alpha::word_patterns(n, run.seed, 0);
    let nb = nbits(n);
    let positions: Vec<usize> = if n <= 8 || (run.thorough() && n <= 9) {
        (0..nb).collect()
    } else {
        let mut v = Vec::new();
        for w in 0..nwords(n) {
            for o in [0usize, 1, 31, 32, 62, 63] {
                v.push(w * 64 + o);
            }
        }
        v
    };
    let np = positions.len() as u64;
    run.section(
        &format!("ORDER single-bit deviation pairs n={} {}", n, L::tname(n)),
        false,
        &format!("{} base tables x all ordered pairs (t^e_p, t^e_q) over {} positions: the smallest witnesses of a wrong word order or of a comparison that stops early", bases.len(), np),
        bases.len() as u64 * np,
        2,
        |r, l| {
            for idx in r {
                let base = &bases[(idx / np) as usize];
                let p = positions[(idx % np) as usize];
                let mut a = base.clone();
                a.set(p, !base.get(p));
                // model order of (t^e_p) vs (t^e_q): decided at the higher of the two positions
                let res = guarded(|| {
                    let la: L = mk_tt(&a);
                    let mut bad = Vec::new();
                    for q in &positions {
                        let mut b = base.clone();
                        b.set(*q, !base.get(*q));
                        let lb: L = mk_tt(&b);
                        let w = a.cmp_num(&b);
                        if la.cmp(&lb) != w || la.partial_cmp(&lb) != Some(w) || (la < lb) != (w == Ordering::Less) || (la <= lb) != (w != Ordering::Greater) || (la > lb) != (w == Ordering::Greater) || (la >= lb) != (w != Ordering::Less) || (la == lb) != (w == Ordering::Equal) {
                            bad.push(*q);
                        }
                    }
                    bad
                });
                l.states += np;
                l.nontrivial += np - 1;
                l.transitions += np;
                l.validated += np;
                l.digest ^= crate::engine::mix3(idx, p as u64, np);
                let bad = match res {
                    Ok(b) => b,
                    Err(_) => positions.clone(),
                };
                for q in bad {
                    let mut b = base.clone();
                    b.set(q, !base.get(q));
                    if let Err(v) = cmp_pair::<L>(&a, &b) {
                        report_pair(l, st, &a, &b, v);
                    }
                }
                if idx == 1 {
                    let mut b = base.clone();
                    b.set(positions[positions.len() - 1], !base.get(positions[positions.len() - 1]));
                    l.sample(J::s(case_pair(st, &a, &b)));
                }
            }
        },
    );
}

// ------------------------------------------------------------------------------- iterator

fn iter_full<L: Tab>(run: &Run, st: bool, n: usize) {
    let prof = run.profile;
    run.section_seq(&format!("ITER complete run all_functions n={} {} ({} profile)", n, L::tname(n), prof), true, "complete: first item zero, each item the numeric successor of the previous, strictly increasing, exactly 2^(2^n) items, then None forever", |l| {
        let total = 1u64 << nbits(n);
        let res = guarded(|| {
            let mut it = L::t_all_functions(n);
            let mut count = 0u64;
            let mut prev: Option<L> = None;
            let mut model = TT::zero(n);
            let mut h = 0u64;
            loop {
                let item = match it.next() {
                    Some(x) => x,
                    None => break,
                };
                if count >= total {
                    return Err((count, format!("at most {} items", total), "the iterator keeps yielding".to_string()));
                }
                if item.t_nv() != n || item.t_blocks() != &model.w[..] {
                    return Err((count, format!("item {} = [{}]", count, fmt_words(&model.w)), show(&item)));
                }
                if let Some(p) = &prev {
                    if !(p < &item) || p.cmp(&item) != Ordering::Less {
                        return Err((count, format!("item {} strictly greater than item {}", count, count - 1), format!("{} then {}", show(p), show(&item))));
                    }
                }
                h ^= crate::engine::mix3(count, hash_words(item.t_blocks()), 1);
                prev = Some(item);
                count += 1;
                model = model.succ().0;
            }
            if count != total {
                return Err((count, format!("{} items", total), format!("{} items", count)));
            }
            for k in 0..3 {
                if it.next().is_some() {
                    return Err((count, "None forever after the last item".to_string(), format!("Some on call {} after the end", k)));
                }
            }
            Ok((count, h))
        });
        l.states += total;
        l.nontrivial += total - 1;
        l.transitions += total;
        l.validated += total;
        match res {
            Ok(Ok((_, h))) => l.digest ^= h,
            Ok(Err((at, e, o))) => {
                l.violation(format!("{:02}|{}|iterfull|{}", n, tyname(st), prof), &format!("C08/{}/all_functions", if st { "LutN" } else { "Lut" }), format!("ty={};kind=iterfull;n={};at={};prof={}", tyname(st), n, at, prof), e, o);
            }
            Err(p) => {
                l.violation(format!("{:02}|{}|iterfull|{}", n, tyname(st), prof), &format!("C08/{}/all_functions/panic", if st { "LutN" } else { "Lut" }), format!("ty={};kind=iterfull;n={};at=0;prof={}", tyname(st), n, prof), "the complete run terminates normally".into(), p);
            }
        }
        l.sample(J::s(format!("ty={};kind=iterfull;n={};prof={}", tyname(st), n, prof)));
    });
}

/// complete run of Lut5 (2^32 items), thorough
fn iter_full5(run: &Run) {
    run.section_seq("ITER complete run all_functions Lut5 (2^32 items)", true, "complete", |l| {
        let res = guarded(|| {
            let mut it = volute::Lut5::all_functions();
            let mut count = 0u64;
            for item in &mut it {
                if item.blocks()[0] != count {
                    return Err((count, item.blocks()[0]));
                }
                count += 1;
                if count > (1u64 << 32) {
                    break;
                }
            }
            if it.next().is_some() {
                return Err((count, u64::MAX));
            }
            Ok(count)
        });
        l.states += 1u64 << 32;
        l.nontrivial += (1u64 << 32) - 1;
        l.transitions += 1u64 << 32;
        l.validated += 1u64 << 32;
        match res {
            Ok(Ok(c)) if c == 1u64 << 32 => {}
            other => {
                l.violation("05|S|iterfull".into(), "C08/LutN/all_functions", "ty=S;kind=iterfull;n=5;at=0;prof=release".into(), "2^32 items 0,1,2,... then None".into(), format!("{:?}", other));
            }
        }
    });
}

fn step_one<L: Tab>(t: &TT) -> Verdict {
    let (succ, wrapped) = t.succ();
    let r = guarded(|| {
        let mut it = L::t_iter_from(mk_tt::<L>(t));
        let first = it.next();
        let second = it.next();
        let third = if second.is_none() { it.next() } else { None };
        (first.map(|x| x.t_blocks().to_vec()), second, third.is_some())
    });
    match r {
        Err(p) => fail(format!("next() after {} yields {}", show_tt(t), if wrapped { "None".to_string() } else { show_tt(&succ) }), p),
        Ok((first, second, third)) => {
            if first.as_deref() != Some(&t.w[..]) {
                return fail("the iterator positioned on a table yields that table", format!("{:?}", first));
            }
            match second {
                None => {
                    if !wrapped {
                        return fail(format!("successor {}", show_tt(&succ)), "None (iteration ended early)");
                    }
                    if third {
                        return fail("None forever after the all-ones table", "Some after None");
                    }
                    Ok(())
                }
                Some(s) => {
                    if wrapped {
                        return fail("None after the all-ones table", show(&s));
                    }
                    same_function("successor", &s, &succ)?;
                    let lt: L = mk_tt(t);
                    if !(lt < s) {
                        return fail("successor strictly greater than its predecessor", format!("{} !< {}", show(&lt), show(&s)));
                    }
                    Ok(())
                }
            }
        }
    }
}

fn step_states(n: usize, seed: u64, thorough: bool) -> Vec<TT> {
    let mut v: Vec<TT> = Vec::new();
    let nw = nwords(n);
    let words = alpha::word_alphabet(seed);
    // k low words all ones, the next word over P, the words above over {0, !0, irregular}
    for k in 0..=nw {
        for next in &words {
            for above in [0u64, !0u64, words[8]] {
                let mut w = vec![above; nw];
                for x in w.iter_mut().take(k) {
                    *x = !0;
                }
                if k < nw {
                    w[k] = *next;
                }
                v.push(alpha::tt_words(n, w));
            }
        }
    }
    // low word one short of all ones, and 0xffff_ffff (half-word carry)
    for lowv in [!0u64 - 1, 0xffff_ffff, 0x7fff_ffff_ffff_ffff] {
        let mut w = vec![0u64; nw];
        w[0] = lowv;
        v.push(alpha::tt_words(n, w.clone()));
        if nw > 1 {
            w[1] = !0;
            v.push(alpha::tt_words(n, w));
        }
    }
    v.extend(alpha::family_capped(n, seed, 1, if thorough { 20000 } else { 3000 }));
    v.sort_by(|a, b| a.w.iter().rev().cmp(b.w.iter().rev()));
    v.dedup();
    v
}

fn iter_steps<L: Tab>(run: &Run, st: bool, n: usize) {
    let states = step_states(n, run.seed, run.thorough());
    let prof = run.profile;
    let total = states.len() as u64;
    run.section(
        &format!("ITER successor steps (hook H2) n={} {} ({} profile)", n, L::tname(n), prof),
        false,
        &format!("{} start tables: k low words all ones (every k) with the next word over the word alphabet, near-carry words, F(n); successor and wrap flag", total),
        total,
        8,
        |r, l| {
            for k in r {
                let t = &states[k as usize];
                l.states += 1;
                let carries = t.w[0] == !0u64 || (n < 6 && t.succ().0.w[0] == 0);
                l.nontrivial += carries as u64;
                match step_one::<L>(t) {
                    Ok(()) => l.tr(hash_words(&t.w), 0, carries as u64),
                    Err(v) => {
                        l.transitions += 1;
                        l.validated += 1;
                        let sig = format!("C08/next/{}", if t.w[0] == !0u64 && n >= 6 { "low-word-all-ones" } else { "other" });
                        let key = format!("{:02}|{}|step|{}|{}", n, tyname(st), prof, fmt_words(&t.w));
                        l.violation(key, &sig, format!("ty={};kind=step;n={};t={};prof={}", tyname(st), n, fmt_words(&t.w), prof), v.0, v.1);
                    }
                }
                if k == total / 2 {
                    l.sample(J::s(format!("ty={};kind=step;n={};t={};prof={}", tyname(st), n, fmt_words(&t.w), prof)));
                }
            }
        },
    );
}

/// The profile-sensitive part (run in both binaries).
pub fn iterator_part(run: &Run) {
    fn full<L: Tab>(run: &Run, st: bool, n: usize) {
        iter_full::<L>(run, st, n)
    }
    fn steps<L: Tab>(run: &Run, st: bool, n: usize) {
        iter_steps::<L>(run, st, n)
    }
    for n in 0..=4usize {
        for st in [false, true] {
            for_type!(st, n, full(run, st, n));
        }
    }
    let top = if run.thorough() { 12 } else { 10 };
    for n in 4..=top {
        for st in [false, true] {
            for_type!(st, n, steps(run, st, n));
        }
    }
    super::iter::run_sections(run, "C08", if run.thorough() { 10 } else { 9 });
}

pub fn replay(case: &Case) -> Result<Verdict, String> {
    let st = parse_ty(case.get("ty")?)?;
    let n = case.usize("n")?;
    match case.get("kind")? {
        "pair" => {
            let na = case.usize("na")?;
            let a = TT::from_words(na, &case.words("a")?).ok_or("a malformed")?;
            let b = TT::from_words(n, &case.words("b")?).ok_or("b malformed")?;
            fn go<L: Tab>(a: &TT, b: &TT) -> Verdict {
                cmp_pair::<L>(a, b)
            }
            if st && na != n {
                return Err("static cross-size pair".into());
            }
            Ok(for_type!(st, n, go(&a, &b)))
        }
        "triple" => {
            let g = |k: &str| -> Result<TT, String> { Ok(TT::from_u64(n, u64::from_str_radix(case.get(k)?, 16).map_err(|e| e.to_string())?)) };
            let (a, b, c) = (g("a")?, g("b")?, g("c")?);
            fn go<L: Tab>(a: &TT, b: &TT, c: &TT) -> Verdict {
                triple::<L>(a, b, c)
            }
            Ok(for_type!(st, n, go(&a, &b, &c)))
        }
        "step" => {
            let t = TT::from_words(n, &case.words("t")?).ok_or("t malformed")?;
            fn go<L: Tab>(t: &TT) -> Verdict {
                step_one::<L>(t)
            }
            Ok(for_type!(st, n, go(&t)))
        }
        "iterfull" => {
            // re-run the complete iteration of that size
            let r = Run::new("C08", crate::engine::Tier::Quick, 0);
            let mut r = r;
            r.silent = true;
            fn full<L: Tab>(run: &Run, st: bool, n: usize) {
                iter_full::<L>(run, st, n)
            }
            if n > 4 {
                return Err("iterfull replay supports n<=4".into());
            }
            for_type!(st, n, full(&r, st, n));
            let v = r.viols.lock().unwrap();
            Ok(match v.first() {
                Some(x) => Err((x.expected.clone(), x.observed.clone())),
                None => Ok(()),
            })
        }
        "iterscript" => super::iter::replay("C08", case),
        k => Err(format!("unknown kind {}", k)),
    }
}

pub fn run(run: &Run) {
    run.set_rule("ordering: state = ordered pair/triple of tables, transition = comparison operators / sort, non-trivial = distinct tables; iterator: state = current table, transition = next(), non-trivial = a step that carries out of the low word (or wraps)");
    run.assume("reference model: bit-by-bit numeric comparison and ripple successor (model::tt cmp_num / succ)");
    fn ps<L: Tab>(run: &Run, st: bool, n: usize) {
        pairs_small::<L>(run, st, n)
    }
    fn tr<L: Tab>(run: &Run, st: bool, n: usize) {
        triples::<L>(run, st, n)
    }
    fn pl<L: Tab>(run: &Run, st: bool, n: usize) {
        pairs_large::<L>(run, st, n)
    }
    for n in 0..=3usize {
        for st in [false, true] {
            for_type!(st, n, ps(run, st, n));
            if n <= 2 || run.thorough() {
                for_type!(st, n, tr(run, st, n));
            }
        }
    }
    if run.thorough() {
        pairs4(run);
        iter_full5(run);
    }
    for n in 5..=12usize {
        if !run.thorough() && n > 10 {
            continue;
        }
        for st in [false, true] {
            for_type!(st, n, pl(run, st, n));
        }
    }
    iterator_part(run);
    child_run(run, &[]);
    let _ = for_static!(0, nop());
}

fn nop<L: Tab>() {}
