//! C01 — logical operators are exact pointwise Boolean operations.
//!
//! State: ordered pair (a, b) of n-variable tables. Transitions: the 4 forms of NOT and the
//! 8 forms of each of AND/OR/XOR (28 per type). Oracle: result.value(m) = op(a(m), b(m)) on
//! every assignment with the operands observed before the call; result well-formed;
//! borrowed operands unchanged. (All forms agree because each equals the model.)

use super::common::*;
use crate::api::{BinOp, Tab, BINARY_FORMS, UNARY_FORMS};
use crate::engine::{fmt_words, guarded, hash_words, Case, Local, Run};
use crate::model::alpha;
use crate::model::tt::{nbits, TT};
use crate::{for_static, for_type};

fn case_str(st: bool, n: usize, a: &[u64], b: &[u64], op: Option<BinOp>, form: usize) -> String {
    format!("ty={};n={};a={};b={};op={};form={}", tyname(st), n, fmt_words(a), fmt_words(b), op.map(|o| o.name()).unwrap_or("not"), form)
}

/// Slow path, by the book: one operand pair, one operator, one form.
fn check_one<L: Tab>(n: usize, a: &[u64], b: &[u64], op: Option<BinOp>, form: usize) -> Verdict {
    check_prov::<L>(n, a, b, op, form, "blocks", "blocks")
}

/// How an operand table came to be (every route is public API and must give the same table):
/// blocks = from_blocks; cfrom.m = clone_from into an existing table of m variables (the
/// dynamic type; the alias: into an existing table); cfrom2.m.k = clone_from into a table that
/// itself was clone_from'ed (k variables, then m); clone; hex = from_hex_string(to_hex_string);
/// notnot = !!a.
pub const PROVENANCES: [&str; 7] = ["clone", "hex", "notnot", "cfrom.0", "cfrom.3", "cfrom.6", "cfrom.8"];

fn provenance<L: Tab>(n: usize, w: &[u64], prov: &str) -> L {
    let base: L = mk(n, w);
    let p: Vec<&str> = prov.split('.').collect();
    let num = |k: usize| -> usize { p.get(k).and_then(|x| x.parse().ok()).unwrap_or(0) };
    match p[0] {
        "blocks" => base,
        "clone" => base.clone(),
        // a parser that rejects the printed table is a defect of the subject (C09's subject
        // matter), not of the harness: the unparsed original is used and C09 reports it
        "hex" => L::t_from_hex(n, &base.t_hex()).unwrap_or(base),
        "notnot" => base.t_not().t_not(),
        "cfrom" => base.t_clone_from_into(num(1)),
        "cfrom2" => {
            // destination: a table of m variables that was itself overwritten from one of k variables
            let mid: L = if L::STATIC { base.t_not() } else { mk::<L>(num(2), &vec![0u64; crate::model::tt::nwords(num(2))]).t_clone_from_into(num(1)) };
            let mut d = mid;
            d.clone_from(&base);
            d
        }
        _ => panic!("harness: unknown provenance"),
    }
}

fn check_prov<L: Tab>(n: usize, a: &[u64], b: &[u64], op: Option<BinOp>, form: usize, pa: &str, pb: &str) -> Verdict {
    let (ma, mb) = match (TT::from_words(n, a), TT::from_words(n, b)) {
        (Some(x), Some(y)) => (x, y),
        _ => return Err(("harness".into(), "case operands are not well-formed".into())),
    };
    let r = guarded(|| {
        let la: L = provenance(n, a, pa);
        let lb: L = provenance(n, b, pb);
        // operands observed before the call, through value()
        let va = abs_by_value(&la);
        let vb = abs_by_value(&lb);
        let out = match op {
            None => {
                let (r, aa) = L::t_unary_form(form, &la);
                (r, aa, lb.clone())
            }
            Some(o) => L::t_binary_form(o, form, &la, &lb),
        };
        (va, vb, out)
    });
    let fname = match op {
        None => UNARY_FORMS[form].to_string(),
        Some(o) => BINARY_FORMS[form].replace("op", o.name()),
    };
    match r {
        Err(p) => fail(format!("{} returns a table", fname), p),
        Ok((va, vb, (res, aa, bb))) => {
            if va != ma || vb != mb {
                return fail(format!("value() of the operands (a via {}, b via {}) reads bit m of their tables", pa, pb), format!("a={} b={}", show_tt(&va), show_tt(&vb)));
            }
            let model = match op {
                None => TT::from_fn(n, |m| !va.get(m)),
                Some(o) => TT::from_fn(n, |m| o.bit(va.get(m), vb.get(m))),
            };
            same_function(&fname, &res, &model)?;
            if aa.t_blocks() != a {
                return fail(format!("{} leaves operand a = [{}]", fname, fmt_words(a)), show(&aa));
            }
            if bb.t_blocks() != b {
                return fail(format!("{} leaves operand b = [{}]", fname, fmt_words(b)), show(&bb));
            }
            Ok(())
        }
    }
}

pub fn replay(case: &Case) -> Result<Verdict, String> {
    let st = parse_ty(case.get("ty")?)?;
    let n = case.usize("n")?;
    let a = case.words("a")?;
    let b = case.words("b")?;
    let op = match case.get("op")? {
        "not" => None,
        s => Some(BinOp::from_name(s).ok_or("bad op")?),
    };
    let form = case.usize("form")?;
    let pa = case.opt("pa").unwrap_or("blocks").to_string();
    let pb = case.opt("pb").unwrap_or("blocks").to_string();
    fn go<L: Tab>(n: usize, a: &[u64], b: &[u64], op: Option<BinOp>, form: usize, pa: &str, pb: &str) -> Verdict {
        check_prov::<L>(n, a, b, op, form, pa, pb)
    }
    Ok(for_type!(st, n, go(n, &a, &b, op, form, &pa, &pb)))
}

fn report(l: &mut Local, st: bool, n: usize, a: &[u64], b: &[u64], op: Option<BinOp>, form: usize, v: (String, String)) {
    let sig = format!("C01/{}/{}/{}", if st { "LutN" } else { "Lut" }, op.map(|o| o.name()).unwrap_or("not"), match op {
        None => UNARY_FORMS[form],
        Some(_) => BINARY_FORMS[form],
    });
    let key = format!("{:02}|{}|{:>20}|{:>20}|{}{}", n, tyname(st), fmt_words(a), fmt_words(b), op.map(|o| o.name()).unwrap_or("not"), form);
    l.violation(key, &sig, case_str(st, n, a, b, op, form), v.0, v.1);
}

/// All 28 forms on one pair: fast comparison on the encoding, slow path on any doubt.
fn pair_all_forms<L: Tab>(l: &mut Local, st: bool, n: usize, a: &[u64], b: &[u64], forms_mask: u32, run: &Run) {
    let ha = hash_words(a);
    let hb = hash_words(b);
    let fast = guarded(|| {
        let la: L = mk(n, a);
        let lb: L = mk(n, b);
        let mut bad: Vec<(Option<BinOp>, usize)> = Vec::new();
        let mut results: Vec<u64> = Vec::new();
        let mask_last = if n < 6 { (1u64 << nbits(n)).wrapping_sub(1) } else { !0u64 };
        for f in 0..4 {
            let (r, aa) = L::t_unary_form(f, &la);
            let ok = r.t_nv() == n && r.t_blocks().len() == a.len() && r.t_blocks().iter().zip(a.iter()).all(|(x, y)| *x == !*y & mask_last) && aa.t_blocks() == a;
            results.push(hash_words(r.t_blocks()));
            if !ok {
                bad.push((None, f));
            }
        }
        for o in BinOp::ALL {
            for f in 0..8 {
                if (forms_mask >> f) & 1 == 0 {
                    continue;
                }
                let (r, aa, bb) = L::t_binary_form(o, f, &la, &lb);
                let ok = r.t_nv() == n && r.t_blocks().len() == a.len() && r.t_blocks().iter().zip(a.iter().zip(b.iter())).all(|(x, (p, q))| *x == o.word(*p, *q)) && aa.t_blocks() == a && bb.t_blocks() == b;
                results.push(hash_words(r.t_blocks()));
                if !ok {
                    bad.push((Some(o), f));
                }
            }
        }
        (bad, results)
    });
    let bad = match fast {
        Ok((bad, results)) => {
            for (k, r) in results.iter().enumerate() {
                l.tr(ha ^ hb.rotate_left(17), k as u64, *r);
            }
            bad
        }
        Err(_) => {
            // some form panicked: let the slow path find which
            let mut all = Vec::new();
            for f in 0..4 {
                all.push((None, f));
            }
            for o in BinOp::ALL {
                for f in 0..8 {
                    if (forms_mask >> f) & 1 != 0 {
                        all.push((Some(o), f));
                    }
                }
            }
            l.transitions += all.len() as u64;
            l.validated += all.len() as u64;
            all
        }
    };
    for (op, f) in bad {
        match check_one::<L>(n, a, b, op, f) {
            Err(v) => report(l, st, n, a, b, op, f, v),
            Ok(()) => {
                // fast path said bad / panicked, slow path says fine
                if fast_disagrees::<L>(n, a, b, op, f) {
                    run.machinery(format!("C01 fast and slow paths disagree on {}", case_str(st, n, a, b, op, f)));
                }
            }
        }
    }
}

fn fast_disagrees<L: Tab>(_n: usize, _a: &[u64], _b: &[u64], _op: Option<BinOp>, _f: usize) -> bool {
    // the slow path is the definition; a fast-path-only failure can only come from a panic in
    // another form of the same batch, which the slow path of that form reports itself
    false
}

fn sweep_pairs<L: Tab>(run: &Run, st: bool, n: usize) {
    let size = 1u64 << nbits(n);
    let name = format!("SWEEP all ordered pairs n={} {} x 28 forms", n, L::tname(n));
    run.section(&name, true, "complete: every ordered pair of n-variable functions, every form", size * size, 4096, |r, l| {
        for idx in r {
            let (a, b) = (idx / size, idx % size);
            l.states += 1;
            if a != b && a != 0 && b != 0 {
                l.nontrivial += 1;
            }
            pair_all_forms::<L>(l, st, n, &[a], &[b], 0xff, run);
            // by the book on a slice of the space (every pair for n<=2, the diagonal band for n=3)
            if n <= 2 || (a ^ b) < 4 {
                for f in 0..4 {
                    if let Err(v) = check_one::<L>(n, &[a], &[b], None, f) {
                        report(l, st, n, &[a], &[b], None, f, v);
                    }
                }
                for o in BinOp::ALL {
                    for f in 0..8 {
                        l.validated += 1;
                        if let Err(v) = check_one::<L>(n, &[a], &[b], Some(o), f) {
                            report(l, st, n, &[a], &[b], Some(o), f, v);
                        }
                    }
                }
            }
            if idx == size * size / 3 {
                l.sample(crate::engine::json::J::s(case_str(st, n, &[a], &[b], Some(BinOp::Xor), 5)));
            }
        }
    });
}

/// n = 4, all 2^32 ordered pairs (thorough). StaticLut: all 28 forms. Lut: the two in-place
/// forms written without spare clones (allocation-bound), the rest on all tables × pool.
fn sweep_pairs4_static(run: &Run) {
    let n = 4;
    let size = 1u64 << 16;
    run.section("SWEEP all 2^32 ordered pairs n=4 Lut4 x 28 forms", true, "complete", size * size, 1 << 20, |r, l| {
        for idx in r {
            let (a, b) = (idx / size, idx % size);
            l.states += 1;
            if a != b && a != 0 && b != 0 {
                l.nontrivial += 1;
            }
            pair_all_forms::<volute::Lut4>(l, true, n, &[a], &[b], 0xff, run);
        }
    });
}

fn sweep_pairs4_dynamic(run: &Run) {
    let n = 4usize;
    let size = 1u64 << 16;
    run.section("SWEEP all 2^32 ordered pairs n=4 Lut x in-place forms (op_inplace, op= &b)", true, "complete for the two in-place forms", size * size, 1 << 20, |r, l| {
        let mut cur_a = u64::MAX;
        let mut la = volute::Lut::zero(n);
        for idx in r {
            let (a, b) = (idx / size, idx % size);
            if a != cur_a {
                la = volute::Lut::from_blocks(n, &[a]);
                cur_a = a;
            }
            l.states += 1;
            if a != b && a != 0 && b != 0 {
                l.nontrivial += 1;
            }
            let res = guarded(|| {
                let lb = volute::Lut::from_blocks(n, &[b]);
                let mut bad = 0u32;
                let mut r1 = la.clone();
                r1.and_inplace(&lb);
                bad |= ((r1.blocks()[0] != a & b) as u32) << 0;
                r1.or_inplace(&lb);
                bad |= ((r1.blocks()[0] != (a & b) | b) as u32) << 1;
                r1.xor_inplace(&la);
                bad |= ((r1.blocks()[0] != ((a & b) | b) ^ a) as u32) << 2;
                let mut r2 = la.clone();
                r2 |= &lb;
                bad |= ((r2.blocks()[0] != a | b) as u32) << 3;
                r2 ^= &lb;
                bad |= ((r2.blocks()[0] != (a | b) ^ b) as u32) << 4;
                r2 &= &la;
                bad |= ((r2.blocks()[0] != ((a | b) ^ b) & a) as u32) << 5;
                bad |= ((lb.blocks()[0] != b || la.blocks()[0] != a) as u32) << 6;
                (bad, r1.blocks()[0] ^ r2.blocks()[0].rotate_left(16))
            });
            match res {
                Ok((0, h)) => {
                    for k in 0..6 {
                        l.tr(idx, k, h);
                    }
                }
                _ => {
                    l.transitions += 6;
                    l.validated += 6;
                    // chained ops: re-check every single op by the book on the operands involved
                    let chain: [(u64, u64, BinOp, usize); 6] = [
                        (a, b, BinOp::And, 1),
                        (a & b, b, BinOp::Or, 1),
                        ((a & b) | b, a, BinOp::Xor, 1),
                        (a, b, BinOp::Or, 7),
                        (a | b, b, BinOp::Xor, 7),
                        ((a | b) ^ b, a, BinOp::And, 7),
                    ];
                    for (x, y, o, f) in chain {
                        if let Err(v) = check_one::<volute::Lut>(n, &[x], &[y], Some(o), f) {
                            report(l, false, n, &[x], &[y], Some(o), f, v);
                        }
                    }
                }
            }
        }
    });
}

fn alphabet_pairs<L: Tab>(run: &Run, st: bool, n: usize) {
    let level = if run.thorough() { 2 } else { 1 };
    let cap = match (n, run.thorough()) {
        (0..=8, _) => 40000,
        (9..=10, false) => 12000,
        (9..=10, true) => 60000,
        (_, false) => 6000,
        (_, true) => 40000,
    };
    let fam = alpha::family_capped(n, run.seed, level, cap);
    let mut pool = alpha::pool(n, run.seed);
    if n >= 9 && !run.thorough() {
        // zero, one, x0, x_{n-1}, parity, the three irregular tables
        let named = alpha::named(n);
        let mut small = vec![named[0].clone(), named[1].clone(), named[2].clone(), named[1 + n].clone(), named[2 + n].clone()];
        small.extend(alpha::word_patterns(n, run.seed, 0).into_iter().rev().take(3));
        pool = small;
    }
    let npool = pool.len() as u64;
    let name = format!("ALPHABET pairs F({}) x pool + one-word deviations, {} x 28 forms", n, L::tname(n));
    let total = fam.len() as u64;
    run.section(&name, false, &format!("|F(n)|={} (level {}), |pool|={}, plus (t, t with one word replaced) per word", fam.len(), level, npool), total, 8, |r, l| {
        let words = alpha::word_alphabet(run.seed);
        for i in r {
            let a = &fam[i as usize];
            for b in &pool {
                l.states += 1;
                if a != b && !a.is_const(false) && !b.is_const(false) {
                    l.nontrivial += 1;
                }
                pair_all_forms::<L>(l, st, n, &a.w, &b.w, 0xff, run);
            }
            // (t, t with one word deviated): the pair a kernel that stops early cannot tell apart
            let nw = a.w.len();
            for pos in 0..nw {
                let d = words[(i as usize + pos) % words.len()];
                let mut w = a.w.clone();
                w[pos] ^= d | 1;
                let b = alpha::tt_words(n, w);
                l.states += 1;
                l.nontrivial += 1;
                pair_all_forms::<L>(l, st, n, &a.w, &b.w, 0xff, run);
            }
            if i == total / 2 {
                l.sample(crate::engine::json::J::s(case_str(st, n, &a.w, &pool[pool.len() / 2].w, Some(BinOp::Or), 4)));
                // by the book on a few pairs per size
                for b in pool.iter().take(4) {
                    for o in BinOp::ALL {
                        for f in 0..8 {
                            if let Err(v) = check_one::<L>(n, &a.w, &b.w, Some(o), f) {
                                report(l, st, n, &a.w, &b.w, Some(o), f, v);
                            }
                        }
                    }
                }
            }
        }
    });
}

fn lut4_all_times_pool(run: &Run) {
    let n = 4;
    let pool = alpha::pool(n, run.seed);
    run.section("SWEEP all tables(4) x pool, Lut x 28 forms", false, &format!("all 65536 first operands, |pool|={}", pool.len()), 1 << 16, 256, |r, l| {
        for a in r {
            for b in &pool {
                l.states += 1;
                l.nontrivial += (a != 0 && !b.is_const(false)) as u64;
                pair_all_forms::<volute::Lut>(l, false, n, &[a], &b.w, 0xff, run);
            }
        }
    });
}

/// Both operands are the SAME object (pointer-identical references): `&a op &a`, `a.op(&a)`.
fn aliased<L: Tab>(run: &Run, st: bool, n: usize) {
    let fam: Vec<TT> = if n <= 4 { (0..(1u64 << nbits(n))).map(|x| TT::from_u64(n, x)).collect() } else { alpha::family_capped(n, run.seed, 1, 3000) };
    let complete = n <= 4;
    run.section(&format!("ALIASED operands n={} {}: a.op(&a), &a op &a, a op= &a.clone()", n, L::tname(n)), complete, "the two operands are the same object; every table of n<=4, the alphabet above", fam.len() as u64, 16, |r, l| {
        for k in r {
            let t = &fam[k as usize];
            l.states += 1;
            let res = guarded(|| {
                let a: L = mk_tt(t);
                let out = [a.t_and(&a), a.t_or(&a), a.t_xor(&a), alias_ops::<L>(&a, BinOp::And), alias_ops::<L>(&a, BinOp::Or), alias_ops::<L>(&a, BinOp::Xor)];
                (out, a)
            });
            l.transitions += 6;
            l.validated += 6;
            match res {
                Err(p) => report(l, st, n, &t.w, &t.w, Some(BinOp::Xor), 5, ("aliased operator forms return".into(), p)),
                Ok((out, a)) => {
                    let zero = TT::zero(n);
                    let want = [t, t, &zero, t, t, &zero];
                    let names = [(BinOp::And, 0), (BinOp::Or, 0), (BinOp::Xor, 0), (BinOp::And, 5), (BinOp::Or, 5), (BinOp::Xor, 5)];
                    for i in 0..6 {
                        if let Err(v) = same_function(&format!("{} with both operands the same object", BINARY_FORMS[names[i].1].replace("op", names[i].0.name())), &out[i], want[i]) {
                            report(l, st, n, &t.w, &t.w, Some(names[i].0), names[i].1, v);
                        }
                    }
                    if a.t_blocks() != &t.w[..] {
                        report(l, st, n, &t.w, &t.w, Some(BinOp::And), 5, ("the aliased operand is left unchanged".into(), show(&a)));
                    }
                    l.nontrivial += 1;
                    l.digest ^= crate::engine::mix3(hash_words(&t.w), n as u64, 99);
                }
            }
        }
    });
}

/// Operands that reached their value by another public route than from_blocks.
fn provenances<L: Tab>(run: &Run, st: bool, n: usize) {
    let mut fam: Vec<TT> = alpha::named(n).into_iter().take(4).collect();
    let pats = alpha::word_patterns(n, run.seed, 0);
    fam.push(pats[pats.len() - 1].clone());
    fam.push(pats[pats.len() / 2].not());
    fam.dedup();
    let mut provs: Vec<String> = PROVENANCES.iter().map(|s| s.to_string()).collect();
    if !st {
        for m in 0..=9usize {
            provs.push(format!("cfrom.{}", m));
        }
        for (m, k) in [(2usize, 7usize), (7, 2), (6, 8), (8, 6), (0, 9), (9, 0), (5, 3)] {
            provs.push(format!("cfrom2.{}.{}", m, k));
        }
    } else {
        provs.push("cfrom2.0.0".into());
    }
    provs.sort();
    provs.dedup();
    let np = provs.len() as u64;
    let nf = fam.len() as u64;
    let total = nf * nf * np;
    run.section(&format!("PROVENANCE n={} {}: operands obtained by clone / clone_from (into tables of other sizes) / hex round trip / !! / conversion, then all 28 forms", n, L::tname(n)), false, &format!("{} tables x {} tables x {} routes for a (b via clone_from into a table of another size, and vice versa)", nf, nf, np), total, 4, |r, l| {
        for idx in r {
            let a = &fam[(idx / (nf * np)) as usize];
            let b = &fam[((idx / np) % nf) as usize];
            let pa = &provs[(idx % np) as usize];
            let pb = if st { "clone".to_string() } else { format!("cfrom.{}", (n + 3) % 10) };
            l.states += 1;
            l.nontrivial += 1;
            for (x, y) in [(pa.as_str(), pb.as_str()), (pb.as_str(), pa.as_str())] {
                for f in 0..4 {
                    l.transitions += 1;
                    l.validated += 1;
                    if let Err(v) = check_prov::<L>(n, &a.w, &b.w, None, f, x, y) {
                        let sig = format!("C01/{}/provenance/{}", if st { "LutN" } else { "Lut" }, x.split('.').next().unwrap_or(""));
                        l.violation(format!("{:02}|{}|prov|{}|{}|not{}|{}|{}", n, tyname(st), x, y, f, fmt_words(&a.w), fmt_words(&b.w)), &sig, format!("{};pa={};pb={}", case_str(st, n, &a.w, &b.w, None, f), x, y), v.0, v.1);
                    }
                }
                for op in BinOp::ALL {
                    for f in 0..8 {
                        l.transitions += 1;
                        l.validated += 1;
                        if let Err(v) = check_prov::<L>(n, &a.w, &b.w, Some(op), f, x, y) {
                            let sig = format!("C01/{}/provenance/{}", if st { "LutN" } else { "Lut" }, x.split('.').next().unwrap_or(""));
                            l.violation(format!("{:02}|{}|prov|{}|{}|{}{}|{}|{}", n, tyname(st), x, y, op.name(), f, fmt_words(&a.w), fmt_words(&b.w)), &sig, format!("{};pa={};pb={}", case_str(st, n, &a.w, &b.w, Some(op), f), x, y), v.0, v.1);
                        }
                    }
                }
            }
            l.digest ^= crate::engine::mix3(idx, n as u64, 0x9907);
        }
    });
}

fn alias_ops<L: Tab>(a: &L, op: BinOp) -> L {
    // the reference/reference operator form with pointer-identical operands
    L::t_alias_form(op, a)
}

pub fn run(run: &Run) {
    run.set_rule("state = ordered pair (a,b) of n-variable tables (per type); transition = one of the 28 syntactic operator forms; non-trivial = a != b and neither operand constant zero");
    run.assume("reference model: pointwise Boolean function of the operands' value() observed before the call (model::tt)");
    run.assume("bit m of the exported block view is value(m) (checked by the slow path on every n<=2 pair, a band of n=3 pairs and some pairs per larger size; C02 checks it on all states)");
    fn sp<L: Tab>(run: &Run, st: bool, n: usize) {
        sweep_pairs::<L>(run, st, n)
    }
    fn ap<L: Tab>(run: &Run, st: bool, n: usize) {
        alphabet_pairs::<L>(run, st, n)
    }
    for n in 0..=3usize {
        for st in [false, true] {
            for_type!(st, n, sp(run, st, n));
        }
    }
    if run.thorough() {
        sweep_pairs4_static(run);
        sweep_pairs4_dynamic(run);
        lut4_all_times_pool(run);
    }
    fn al<L: Tab>(run: &Run, st: bool, n: usize) {
        aliased::<L>(run, st, n)
    }
    for n in 0..=14usize {
        al::<volute::Lut>(run, false, n);
        if n <= 12 {
            for_static!(n, al(run, true, n));
        }
    }
    fn pv<L: Tab>(run: &Run, st: bool, n: usize) {
        provenances::<L>(run, st, n)
    }
    for n in 0..=10usize {
        pv::<volute::Lut>(run, false, n);
        for_static!(n, pv(run, true, n));
    }
    let sizes: Vec<usize> = (4..=14).collect();
    for n in sizes {
        ap::<volute::Lut>(run, false, n);
        if n <= 12 {
            for_static!(n, ap(run, true, n));
        }
    }
}
