//! Helpers shared by the property modules.

use crate::api::Tab;
use crate::engine::{fmt_words, guarded};
use crate::model::tt::{well_formed, TT};

pub type Verdict = Result<(), (String, String)>;

pub fn fail<T>(expected: impl Into<String>, observed: impl Into<String>) -> Result<T, (String, String)> {
    Err((expected.into(), observed.into()))
}

/// Build a subject table from a well-formed block view (public `from_blocks`).
pub fn mk<L: Tab>(n: usize, w: &[u64]) -> L {
    L::t_from_blocks(n, w)
}

pub fn mk_tt<L: Tab>(t: &TT) -> L {
    L::t_from_blocks(t.n, &t.w)
}

/// Abstraction of a subject table by the exported block view; `Err` if it is malformed.
pub fn abs<L: Tab>(l: &L) -> Result<TT, String> {
    let n = l.t_nv();
    let b = l.t_blocks();
    match TT::from_words(n, b) {
        Some(t) => Ok(t),
        None => Err(format!("malformed block view n={} blocks=[{}]", n, fmt_words(b))),
    }
}

/// Abstraction through `value()` on every assignment (the observer the properties name).
pub fn abs_by_value<L: Tab>(l: &L) -> TT {
    TT::from_fn(l.t_nv(), |m| l.t_value(m))
}

pub fn wf<L: Tab>(l: &L) -> bool {
    well_formed(l.t_nv(), l.t_blocks())
}

pub fn show<L: Tab>(l: &L) -> String {
    format!("{}[{}]", L::tname(l.t_nv()), fmt_words(l.t_blocks()))
}

pub fn show_tt(t: &TT) -> String {
    format!("n={} [{}]", t.n, fmt_words(&t.w))
}

pub fn tyname(st: bool) -> &'static str {
    if st {
        "S"
    } else {
        "D"
    }
}

pub fn parse_ty(s: &str) -> Result<bool, String> {
    match s {
        "S" => Ok(true),
        "D" => Ok(false),
        _ => Err(format!("bad type {}", s)),
    }
}

/// Compare a subject result with the model by `value()` on every assignment and by
/// well-formedness of the block view.
pub fn same_function<L: Tab>(what: &str, r: &L, model: &TT) -> Verdict {
    if r.t_nv() != model.n {
        return fail(format!("{}: {} variables", what, model.n), format!("{} variables", r.t_nv()));
    }
    if !wf(r) {
        return fail(format!("{}: well-formed block view of {}", what, show_tt(model)), show(r));
    }
    if model.n > 8 {
        // large tables: the block view must equal the model's encoding, and value() is read
        // on boundary assignments (value() <-> block view on all assignments is C02's check)
        if r.t_blocks() != &model.w[..] {
            let m = (0..model.bits()).find(|m| ((r.t_blocks()[m >> 6] >> (m & 63)) & 1 != 0) != model.get(*m)).unwrap();
            return fail(format!("{}: {} (value {} on assignment {})", what, show_tt(model), model.get(m), m), format!("{} (bit {} of the block view is {})", show(r), m, !model.get(m)));
        }
        let nb = model.bits();
        let probe = guarded(|| {
            for m in [0, 1, 63, 64, 65, nb / 2 - 1, nb / 2, nb - 65, nb - 64, nb - 2, nb - 1] {
                if r.t_value(m) != model.get(m) {
                    return Some(m);
                }
            }
            None
        });
        return match probe {
            Ok(None) => Ok(()),
            Ok(Some(m)) => fail(format!("{}: value {} on assignment {}", what, model.get(m), m), format!("{} (value {} on assignment {})", show(r), !model.get(m), m)),
            Err(p) => fail(format!("{}: {}", what, show_tt(model)), format!("value() {}", p)),
        };
    }
    let vals = guarded(|| abs_by_value(r));
    match vals {
        Err(p) => fail(format!("{}: {}", what, show_tt(model)), format!("value() {}", p)),
        Ok(v) => {
            if &v != model {
                let m = (0..model.bits()).find(|m| v.get(*m) != model.get(*m)).unwrap();
                return fail(format!("{}: {} (value {} on assignment {})", what, show_tt(model), model.get(m), m), format!("{} (value {} on assignment {})", show(r), v.get(m), m));
            }
            if r.t_blocks() != &model.w[..] {
                return fail(format!("{}: blocks {}", what, show_tt(model)), format!("blocks {} although value() agrees", show(r)));
            }
            Ok(())
        }
    }
}
