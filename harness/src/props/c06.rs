//! C06 — top-decomposition and unateness classification is sound and complete.
//!
//! State: one table. Transitions: top_decomposition(v), is_pos_unate(v), is_neg_unate(v) for
//! every v < n. Oracle: cofactors taken assignment by assignment, the priority list of the
//! statement, pointwise <= for unateness.

use super::common::*;
use crate::api::{dec_name, Tab};
use crate::engine::json::J;
use crate::engine::{fmt_words, guarded, hash_words, Case, Local, Run};
use crate::model::alpha;
use crate::model::tt::{nbits, Gather32, TT};
use super::xsize::Tour;
use crate::{for_static, for_type};

/// (class, pos_unate, neg_unate) by the definition
pub fn model_class(t: &TT, v: usize) -> (&'static str, bool, bool) {
    let nb = nbits(t.n);
    let bit = 1usize << v;
    let (mut eq, mut c0_zero, mut c0_one, mut c1_zero, mut c1_one, mut opp, mut pos, mut neg) = (true, true, true, true, true, true, true, true);
    for m in 0..nb {
        let c0 = t.get(m & !bit);
        let c1 = t.get(m | bit);
        eq &= c0 == c1;
        c0_zero &= !c0;
        c0_one &= c0;
        c1_zero &= !c1;
        c1_one &= c1;
        opp &= c0 != c1;
        pos &= !c0 || c1; // c0 <= c1
        neg &= !c1 || c0; // c1 <= c0
    }
    let class = if eq {
        "Independent"
    } else if c0_zero && c1_one {
        "Identity"
    } else if c0_one && c1_zero {
        "Negation"
    } else if c0_zero {
        "And"
    } else if c1_one {
        "Or"
    } else if c0_one {
        "Le"
    } else if c1_zero {
        "Lt"
    } else if opp {
        "Xor"
    } else {
        "None"
    };
    (class, pos, neg)
}

fn case_str(st: bool, t: &TT, v: usize) -> String {
    format!("ty={};n={};t={};v={}", tyname(st), t.n, fmt_words(&t.w), v)
}

pub fn check_one<L: Tab>(t: &TT, v: usize) -> Result<&'static str, (String, String)> {
    let (class, pos, neg) = model_class(t, v);
    let r = guarded(|| {
        let l: L = mk_tt(t);
        let d = l.t_top_decomposition(v);
        (dec_name(&d), l.t_is_pos_unate(v), l.t_is_neg_unate(v))
    });
    match r {
        Err(p) => fail(format!("top_decomposition({}) = {}, is_pos_unate = {}, is_neg_unate = {}", v, class, pos, neg), p),
        Ok((d, p, q)) => {
            if d != class {
                return fail(format!("top_decomposition({}) = {}", v, class), format!("{}", d));
            }
            if p != pos {
                return fail(format!("is_pos_unate({}) = {}", v, pos), format!("{}", p));
            }
            if q != neg {
                return fail(format!("is_neg_unate({}) = {}", v, neg), format!("{}", q));
            }
            Ok(class)
        }
    }
}

pub fn replay(case: &Case) -> Result<Verdict, String> {
    if case.opt("kind") == Some("tour") {
        return super::xsize::replay(case, &tour);
    }
    let st = parse_ty(case.get("ty")?)?;
    let n = case.usize("n")?;
    let t = TT::from_words(n, &case.words("t")?).ok_or("t malformed")?;
    let v = case.usize("v")?;
    fn go<L: Tab>(t: &TT, v: usize) -> Verdict {
        check_one::<L>(t, v).map(|_| ())
    }
    Ok(for_type!(st, n, go(&t, v)))
}

fn step<L: Tab>(l: &mut Local, st: bool, t: &TT, v: usize) {
    match check_one::<L>(t, v) {
        Ok(class) => {
            l.transitions += 3;
            l.validated += 3;
            l.digest ^= crate::engine::mix3(hash_words(&t.w), v as u64, class.len() as u64 + class.as_bytes()[0] as u64 * 16);
            l.nontrivial += (class != "Independent") as u64;
            l.outcome(class);
        }
        Err(e) => {
            l.transitions += 3;
            l.validated += 3;
            let sig = format!("C06/{}/{}", if st { "LutN" } else { "Lut" }, if v <= 5 { "v<=5" } else { "v>=6" });
            let key = format!("{:02}|{}|{:02}|{}", t.n, tyname(st), v, fmt_words(&t.w));
            l.violation(key, &sig, case_str(st, t, v), e.0, e.1);
        }
    }
}

fn sweep<L: Tab>(run: &Run, st: bool, n: usize) {
    let size = 1u64 << nbits(n);
    run.section(&format!("SWEEP all tables n={} {} x top_decomposition/is_pos_unate/is_neg_unate, all v", n, L::tname(n)), true, "complete: every function, every variable", size, 64, |r, l| {
        for x in r {
            let t = TT::from_u64(n, x);
            l.states += 1;
            for v in 0..n {
                step::<L>(l, st, &t, v);
            }
            if x == size / 3 {
                l.sample(J::s(case_str(st, &t, n - 1)));
            }
        }
    });
}

/// n = 5 complete on the encoding (thorough)
fn sweep5(run: &Run) {
    let n = 5usize;
    let g0: Vec<Gather32> = (0..n).map(|v| Gather32::compile(n, |y| y & !(1 << v))).collect();
    let g1: Vec<Gather32> = (0..n).map(|v| Gather32::compile(n, |y| y | (1 << v))).collect();
    run.section("SWEEP all 2^32 tables n=5 Lut5 x top_decomposition/is_pos_unate/is_neg_unate, all v", true, "complete: every 5-variable function, every variable", 1u64 << 32, 1 << 18, |r, l| {
        for x in r {
            let xx = x as u32;
            let res = guarded(|| {
                let s = volute::Lut5::from_blocks(&[x]);
                let mut bad = 0u32;
                let mut h = 0u64;
                let mut nt = 0u64;
                for v in 0..n {
                    let c0 = g0[v].apply(xx);
                    let c1 = g1[v].apply(xx);
                    let one = !0u32;
                    let class = if c0 == c1 {
                        "Independent"
                    } else if c0 == 0 && c1 == one {
                        "Identity"
                    } else if c0 == one && c1 == 0 {
                        "Negation"
                    } else if c0 == 0 {
                        "And"
                    } else if c1 == one {
                        "Or"
                    } else if c0 == one {
                        "Le"
                    } else if c1 == 0 {
                        "Lt"
                    } else if c0 == !c1 {
                        "Xor"
                    } else {
                        "None"
                    };
                    let pos = c0 & !c1 == 0;
                    let neg = c1 & !c0 == 0;
                    let d = s.top_decomposition(v);
                    if dec_name(&d) != class || s.is_pos_unate(v) != pos || s.is_neg_unate(v) != neg {
                        bad |= 1 << v;
                    }
                    nt += (class != "Independent") as u64;
                    h ^= crate::engine::mix3(x, v as u64, class.len() as u64 + class.as_bytes()[0] as u64 * 16);
                }
                (bad, h, nt)
            });
            l.states += 1;
            l.transitions += 15;
            l.validated += 15;
            match res {
                Ok((0, h, nt)) => {
                    l.digest ^= h;
                    l.nontrivial += nt;
                }
                _ => {
                    let t = TT::from_u64(n, x);
                    let before = l.viol_count;
                    l.transitions -= 15;
                    l.validated -= 15;
                    for v in 0..n {
                        step::<volute::Lut5>(l, true, &t, v);
                    }
                    if l.viol_count == before {
                        run.machinery(format!("C06 fast and slow paths disagree on table {:x}", x));
                    }
                }
            }
        }
    });
}

/// n >= 6: for every v and every class, base functions of that class at v, then every
/// single-bit deviation of each base — "the property holds on every word but one".
fn deviations<L: Tab>(run: &Run, st: bool, n: usize) {
    let nb = nbits(n);
    let irregular = alpha::word_patterns(n, run.seed, 0);
    let k = irregular.len();
    let par = TT::from_fn(n, |m| alpha::popcount(m) % 2 == 1);
    let gs: Vec<TT> = vec![irregular[k - 1].clone(), irregular[k - 2].clone(), irregular[4 % k].clone(), par];
    let zero = TT::zero(n);
    let one = zero.not();
    let positions: Vec<usize> = if n <= 10 || (run.thorough() && n <= 11) {
        (0..nb).collect()
    } else {
        let mut p = Vec::new();
        for w in 0..nb / 64 {
            for o in [0usize, 1, 31, 32, 62, 63] {
                p.push(w * 64 + o);
            }
        }
        p
    };
    // bases: (c0, c1) pairs per class
    let mut bases: Vec<(TT, TT)> = Vec::new();
    for (gi, g) in gs.iter().enumerate() {
        let h = &gs[(gi + 1) % gs.len()];
        let gand = TT::pointwise(g, h, |a, b| a && b);
        let gor = TT::pointwise(g, h, |a, b| a || b);
        bases.push((g.clone(), g.clone())); // Independent
        bases.push((zero.clone(), g.clone())); // And
        bases.push((g.clone(), one.clone())); // Or
        bases.push((one.clone(), g.clone())); // Le
        bases.push((g.clone(), zero.clone())); // Lt
        bases.push((g.clone(), g.not())); // Xor
        bases.push((g.clone(), h.clone())); // None (generically)
        bases.push((gand.clone(), gor.clone())); // positive unate
        bases.push((gor, gand)); // negative unate
    }
    bases.push((zero.clone(), one.clone())); // Identity
    bases.push((one.clone(), zero.clone())); // Negation
    bases.push((zero.clone(), zero.clone()));
    bases.push((one.clone(), one.clone()));
    let nbases = bases.len() as u64;
    let total = n as u64 * nbases;
    run.section(
        &format!("DEVIATIONS n={} {}: every v x {} class bases x every single-bit deviation ({} positions)", n, L::tname(n), nbases, positions.len()),
        false,
        "bases of each class built from cofactor pairs over irregular tables; all single-bit deviations at the listed positions; both v<=5 and v>=6 paths",
        total,
        1,
        |r, l| {
            for idx in r {
                let v = (idx / nbases) as usize;
                let (c0, c1) = &bases[(idx % nbases) as usize];
                let base = TT::from_cofactors(&c0.cof0(v), &c1.cof0(v), v);
                l.states += 1;
                step::<L>(l, st, &base, v);
                for p in &positions {
                    let mut t = base.clone();
                    t.set(*p, !base.get(*p));
                    l.states += 1;
                    step::<L>(l, st, &t, v);
                    // and the class of a neighbouring variable on the same deviated table
                    if *p % 7 == 0 {
                        step::<L>(l, st, &t, (v + 1) % n);
                    }
                }
                if idx == total / 2 {
                    l.sample(J::s(case_str(st, &base, v)));
                }
            }
        },
    );
}

fn alphabet<L: Tab>(run: &Run, st: bool, n: usize) {
    let level = if run.thorough() { 2 } else { 1 };
    let cap = if run.thorough() { 40000 } else if n <= 9 { 10000 } else { 3000 };
    let fam = alpha::family_capped(n, run.seed, level, cap);
    run.section(&format!("ALPHABET F({}) {} x all v", n, L::tname(n)), false, &format!("|F(n)|={}", fam.len()), fam.len() as u64, 4, |r, l| {
        for k in r {
            let t = &fam[k as usize];
            l.states += 1;
            for v in 0..n {
                step::<L>(l, st, t, v);
            }
        }
    });
}

// ------------------------------------------------------------------------------ histories

fn check_ty(st: bool, t: &TT, v: usize) -> Verdict {
    fn go<L: Tab>(t: &TT, v: usize) -> Verdict {
        check_one::<L>(t, v).map(|_| ())
    }
    for_type!(st, t.n, go(t, v))
}

/// a few tables of s variables covering the classes at the lowest and the highest variable
fn batch_tables(s: usize) -> Vec<TT> {
    let mut v: Vec<TT> = alpha::named(s).into_iter().take(6).collect();
    let g = |m: usize, bit: usize| alpha::popcount(m & !bit) % 3 == 0;
    for var in [0usize, s - 1] {
        let bit = 1usize << var;
        v.push(TT::from_fn(s, |m| m & bit != 0 && g(m, bit)));
        v.push(TT::from_fn(s, |m| m & bit != 0 || g(m, bit)));
        v.push(TT::from_fn(s, |m| (m & bit != 0) != g(m, bit)));
        v.push(TT::from_fn(s, |m| if m & bit != 0 { g(m, bit) } else { alpha::popcount(m) % 2 == 0 }));
    }
    v
}

fn tour_sizes(thorough: bool) -> Vec<usize> {
    (1..=if thorough { 12 } else { 10 }).collect()
}

fn word_list() -> Vec<u64> {
    let mut w: Vec<u64> = (0..256u64).collect();
    for t in alpha::named(4).iter().chain(alpha::low_weight(4, 1).iter()) {
        w.push(t.w[0]);
    }
    for t in alpha::named(5) {
        w.push(t.w[0]);
    }
    w.sort();
    w.dedup();
    w
}

const WORDS_PER_TOUR: usize = 16;

pub fn tour_count(which: &str, thorough: bool) -> usize {
    match which {
        "sizes" => tour_sizes(thorough).len(),
        _ => (word_list().len() + WORDS_PER_TOUR - 1) / WORDS_PER_TOUR,
    }
}

/// "sizes": the size changes slowest — for every ordered pair of sizes (a, b), a batch of
/// queries at a then at b. "words": the size changes fastest — the same table word and
/// variable queried at consecutive sizes (all ordered pairs of the sizes it is a table of).
pub fn tour(which: &str, k: usize, thorough: bool) -> Result<Tour, String> {
    let mut t = Tour::new(format!("{}:{}", which, k));
    match which {
        "sizes" => {
            let sizes = tour_sizes(thorough);
            let a = *sizes.get(k).ok_or("no such tour")?;
            for s in super::xsize::size_pairs_from(a, &sizes) {
                for tab in batch_tables(s) {
                    for v in 0..s {
                        for st in [false, true] {
                            let tb = tab.clone();
                            t.push(format!("{} n={} [{}] v={}", if st { "LutN" } else { "Lut" }, s, fmt_words(&tb.w), v), move || check_ty(st, &tb, v));
                        }
                    }
                }
            }
        }
        "words" => {
            let words = word_list();
            let chunk: Vec<u64> = words.iter().skip(k * WORDS_PER_TOUR).take(WORDS_PER_TOUR).copied().collect();
            if chunk.is_empty() {
                return Err("no such tour".into());
            }
            for w in chunk {
                let sizes: Vec<usize> = (1..=8usize).filter(|n| *n >= 6 || w >> nbits(*n) == 0).collect();
                for v in 0..3usize {
                    for st in [false, true] {
                        for s in super::xsize::size_pairs(&sizes) {
                            if v >= s {
                                continue;
                            }
                            let mut words = vec![0u64; crate::model::tt::nwords(s)];
                            words[0] = w;
                            let tb = alpha::tt_words(s, words);
                            t.push(format!("{} n={} [{}] v={}", if st { "LutN" } else { "Lut" }, s, fmt_words(&tb.w), v), move || check_ty(st, &tb, v));
                        }
                    }
                }
            }
        }
        _ => return Err(format!("unknown tour family {}", which)),
    }
    Ok(t)
}

fn histories(run: &Run) {
    let th = run.thorough();
    super::xsize::run_tours(run, "C06", "sizes (a batch of queries per size, every ordered pair of sizes consecutively)", "sizes 1..=10 (thorough 12); per size 14 tables covering the classes at the lowest and highest variable x all v x both types; the answer must not depend on what was analysed before on the thread", tour_count("sizes", th), &|k| tour("sizes", k, th).unwrap());
    super::xsize::run_tours(run, "C06", "words (the same table word and variable at consecutive sizes, every ordered pair of sizes)", "all 256 words of 3-variable tables plus named 4- and 5-variable words, as tables of every size 1..=8 they fit; v in 0..3; both types", tour_count("words", th), &|k| tour("words", k, th).unwrap());
}

pub fn run(run: &Run) {
    run.set_rule("state = one table; transition = top_decomposition(v) + is_pos_unate(v) + is_neg_unate(v); non-trivial = the class is not Independent; outcomes = histogram of the nine classes");
    run.assume("reference model: cofactors by assignment and the priority list of the statement (props::c06::model_class)");
    fn sw<L: Tab>(run: &Run, st: bool, n: usize) {
        sweep::<L>(run, st, n)
    }
    fn dv<L: Tab>(run: &Run, st: bool, n: usize) {
        deviations::<L>(run, st, n)
    }
    fn al<L: Tab>(run: &Run, st: bool, n: usize) {
        alphabet::<L>(run, st, n)
    }
    for n in 1..=4usize {
        for st in [false, true] {
            for_type!(st, n, sw(run, st, n));
        }
    }
    if run.thorough() {
        sweep5(run);
    }
    for n in 5..=12usize {
        for st in [false, true] {
            for_type!(st, n, al(run, st, n));
            if n >= 6 {
                for_type!(st, n, dv(run, st, n));
            }
        }
    }
    for n in 13..=14usize {
        al::<volute::Lut>(run, false, n);
    }
    fn em<L: Tab>(run: &Run, st: bool, n: usize) {
        let fam = alpha::embedded3(n, run.thorough() && n <= 8);
        run.section(&format!("EMBEDDED n={} {}: every 3-variable function at ordered variable triples x all v", n, L::tname(n)), false, &format!("{} tables g(x_a,x_b,x_c)", fam.len()), fam.len() as u64, 8, |r, l| {
            for k in r {
                let t = &fam[k as usize];
                l.states += 1;
                for v in 0..n {
                    step::<L>(l, st, t, v);
                }
            }
        });
    }
    for n in 7..=10usize {
        for st in [false, true] {
            for_type!(st, n, em(run, st, n));
        }
    }
    histories(run);
    let _ = for_static!(0, nop());
}

fn nop<L: Tab>() {}
