//! C02 — equality, hashing and ordering are extensional; the block view is always
//! well-formed.
//!
//! Invariants on every state reached through the public API:
//!   WF : blocks().len() == max(1, 2^n/64) and no bit at a position >= 2^n;
//!   VAL: value(m) is bit m of the block view (the state abstraction itself);
//!   EXT: the state equals / hashes like / compares Equal to a fresh table holding the same
//!        function, and differs from a table holding a different function.
//! Base case: every constructor / parser / conversion output. Inductive step: complete
//! one-step sweep from every well-formed state (n <= 4; n = 5 thorough). REACH with the
//! differential check "same function through two histories => same blocks".

use super::common::*;
use super::hist;
use crate::api::Tab;
use crate::engine::json::J;
use crate::engine::{fmt_words, guarded, hash_str, hash_words, Case, Local, Run};
use crate::model::alpha;
use crate::model::tt::{nbits, nwords, well_formed, TT};
use crate::{for_static, for_type};
use std::collections::hash_map::DefaultHasher;
use std::collections::HashMap;
use std::hash::{Hash, Hasher};

fn std_hash<T: Hash>(t: &T) -> u64 {
    let mut h = DefaultHasher::new();
    t.hash(&mut h);
    h.finish()
}

/// WF + VAL + EXT on one subject state.
pub fn invariant<L: Tab>(s: &L, n_expected: usize, full_val: bool) -> Verdict {
    let n = s.t_nv();
    if n != n_expected {
        return fail(format!("a table of {} variables", n_expected), format!("num_vars() = {}", n));
    }
    let b = s.t_blocks();
    if !well_formed(n, b) {
        return fail(format!("well-formed block view: {} block(s), no bit at a position >= {}", nwords(n), nbits(n)), format!("{} blocks=[{}]", L::tname(n), fmt_words(b)));
    }
    if s.t_num_bits() != nbits(n) || s.t_num_blocks() != nwords(n) {
        return fail("num_bits/num_blocks consistent with num_vars", format!("num_bits={} num_blocks={}", s.t_num_bits(), s.t_num_blocks()));
    }
    let m = TT { n, w: b.to_vec() };
    // VAL
    let nb = nbits(n);
    let probe: Vec<usize> = if full_val || n <= 8 { (0..nb).collect() } else { vec![0, 1, 63, 64, nb / 2 - 1, nb / 2, nb - 64, nb - 1] };
    for a in probe {
        if s.t_value(a) != m.get(a) || s.t_get_bit(a) != m.get(a) {
            return fail(format!("value({}) = bit {} of the block view = {}", a, a, m.get(a)), format!("value() = {}, get_bit() = {}", s.t_value(a), s.t_get_bit(a)));
        }
    }
    // EXT against a fresh table with the same function, and one with a different function
    let r: L = mk(n, &m.w);
    if !(*s == r) || s != &r.clone() {
        return fail("== a fresh table holding the same function", format!("{} != {}", show(s), show(&r)));
    }
    if std_hash(s) != std_hash(&r) {
        return fail("hash equal to that of a fresh table holding the same function", format!("{:x} vs {:x}", std_hash(s), std_hash(&r)));
    }
    if s.cmp(&r) != std::cmp::Ordering::Equal || s.partial_cmp(&r) != Some(std::cmp::Ordering::Equal) {
        return fail("cmp == Equal with a fresh table holding the same function", format!("{:?}", s.cmp(&r)));
    }
    let pos = (hash_words(&m.w) as usize) % nb;
    let mut d = m.clone();
    d.set(pos, !m.get(pos));
    let dl: L = mk(n, &d.w);
    if *s == dl || s.cmp(&dl) == std::cmp::Ordering::Equal {
        return fail(format!("!= and cmp != Equal with a table differing on assignment {}", pos), format!("{} vs {}: eq={} cmp={:?}", show(s), show(&dl), *s == dl, s.cmp(&dl)));
    }
    Ok(())
}

fn case_hist(st: bool, n: usize, init: &str, ops: &[String]) -> String {
    format!("ty={};n={};init={};ops={}", tyname(st), n, init, ops.join("|"))
}

/// Replay of a history: init, then operations; every intermediate and the final value must
/// satisfy the invariant and be the model's successor.
fn run_history<L: Tab>(n: usize, init: &str, ops: &[String]) -> Verdict {
    let s0 = guarded(|| hist::init_subject::<L>(n, init));
    let mut cur: L = match s0 {
        Err(p) => return fail(format!("constructor {} returns", init), p),
        Ok(Err(e)) => return Err(("harness".into(), e)),
        Ok(Ok(None)) => return Ok(()), // parser said Err: no table obtained
        Ok(Ok(Some(l))) => l,
    };
    let n_eff = if init == "default" && !L::STATIC { 0 } else { n };
    match guarded(|| invariant(&cur, n_eff, true)) {
        Err(p) => return fail(format!("invariant evaluates on the result of {}", init), p),
        Ok(v) => v.map_err(|(e, o)| (format!("after {}: {}", init, e), o))?,
    }
    let mut model = match hist::init_model(n_eff, init) {
        Ok(Some(m)) => {
            if init.starts_with("eq:") || init.starts_with("thr:") || init.starts_with("sym:") {
                // which function the named constructors build is C11's business; here: well-formed
                TT { n: n_eff, w: cur.t_blocks().to_vec() }
            } else {
                m
            }
        }
        _ => TT { n: n_eff, w: cur.t_blocks().to_vec() },
    };
    if cur.t_blocks() != &model.w[..] {
        return fail(format!("{} builds {}", init, show_tt(&model)), show(&cur));
    }
    for (k, op) in ops.iter().enumerate() {
        let nm = hist::op_model(&model, op).map_err(|e| ("harness".to_string(), e))?;
        let nx = guarded(|| hist::op_subject(&cur, op));
        let nx = match nx {
            Err(p) => return fail(format!("step {} ({}) returns {}", k, op, show_tt(&nm)), p),
            Ok(Err(e)) => return fail(format!("step {} ({}) returns {}", k, op, show_tt(&nm)), e),
            Ok(Ok(x)) => x,
        };
        match guarded(|| invariant(&nx, n_eff, true)) {
            Err(p) => return fail(format!("invariant evaluates after step {} ({})", k, op), p),
            Ok(v) => v.map_err(|(e, o)| (format!("after step {} ({}): {}", k, op, e), o))?,
        }
        if nx.t_blocks() != &nm.w[..] {
            return fail(format!("step {} ({}) gives {}", k, op, show_tt(&nm)), show(&nx));
        }
        cur = nx;
        model = nm;
    }
    Ok(())
}

pub fn replay(case: &Case) -> Result<Verdict, String> {
    let st = parse_ty(case.get("ty")?)?;
    let n = case.usize("n")?;
    if let Some(kind) = case.opt("kind") {
        if kind == "iterscript" {
            return super::iter::replay("C02", case);
        }
        if kind == "tryfrom" {
            let m = case.usize("m")?;
            let t = case.words("t")?;
            return Ok(match guarded(|| super::c10::try_from_dyn(m, &t, n)) {
                Ok(Ok(w)) => {
                    if well_formed(n, &w) {
                        Ok(())
                    } else {
                        fail(format!("a well-formed Lut{}", n), format!("blocks [{}]", fmt_words(&w)))
                    }
                }
                _ => Ok(()),
            });
        }
        if kind == "pair" {
            let a = case.words("a")?;
            let b = case.words("b")?;
            let na = case.usize("na")?;
            fn go<L: Tab>(na: usize, a: &[u64], nb: usize, b: &[u64]) -> Verdict {
                ext_pair::<L>(na, a, nb, b)
            }
            if st {
                if na != n {
                    return Err("static pair of different sizes".into());
                }
                return Ok(for_static!(n, go(na, &a, n, &b)));
            }
            return Ok(go::<volute::Lut>(na, &a, n, &b));
        }
    }
    let init = case.get("init")?.to_string();
    let ops: Vec<String> = case.get("ops")?.split('|').filter(|s| !s.is_empty()).map(|s| s.to_string()).collect();
    fn go<L: Tab>(n: usize, init: &str, ops: &[String]) -> Verdict {
        run_history::<L>(n, init, ops)
    }
    Ok(for_type!(st, n, go(n, &init, &ops)))
}

fn sig_of(init: &str, ops: &[String], st: bool) -> String {
    let last = ops.last().map(|s| s.split(':').next().unwrap_or("").to_string());
    let what = match last {
        Some(op) => format!("op:{}", op),
        None => format!("init:{}", init.split(':').next().unwrap_or("")),
    };
    format!("C02/{}/{}", if st { "LutN" } else { "Lut" }, what)
}

fn report_hist(l: &mut Local, st: bool, n: usize, init: &str, ops: &[String], v: (String, String)) {
    let mut sig = sig_of(init, ops, st);
    if init.starts_with("hex:") && ops.is_empty() {
        sig = format!("C02/from_hex_string/{}", if n <= 1 { "n<=1:malformed-result" } else { "malformed-result" });
    }
    let key = format!("{:02}|{}|{:03}|{}|{}", n, tyname(st), ops.len(), init, ops.join("|"));
    l.violation(key, &sig, case_hist(st, n, init, ops), v.0, v.1);
}

// ---------------------------------------------------------------------------------------
// Base case: every constructor output.

fn constructor_inits(n: usize, thorough: bool, st: bool) -> Vec<String> {
    let mut v: Vec<String> = vec!["zero".into(), "one".into(), "parity".into(), "majority".into(), "default".into()];
    for i in 0..n {
        v.push(format!("var:{}", i));
    }
    for k in (0..=n + 2).chain([63usize, 64, 65, usize::MAX]) {
        v.push(format!("thr:{}", k));
        if k < 64 {
            // equals(k >= 64) is exercised by C11/C17 (it overflows a shift under overflow checks)
            v.push(format!("eq:{}", k));
        }
    }
    let full_sym = if thorough { n <= 12 } else { n <= 9 };
    if full_sym {
        for c in 0..(1usize << (n + 1)) {
            v.push(format!("sym:{}", c));
        }
    } else {
        for c in [0usize, 1, 2, 5, 1 << n, (1 << (n + 1)) - 1, 0x5555_5555, 0xaaaa_aaaa] {
            v.push(format!("sym:{}", c));
        }
    }
    for c in [1usize << 63, !0usize, (1usize << 63) | 5, !0usize << (n + 1)] {
        v.push(format!("sym:{}", c));
    }
    // parser: every string of the right width over the hex digits for small widths
    let width = std::cmp::max(1, nbits(n) / 4);
    let digits: Vec<char> = "0123456789abcdefABCDEF".chars().collect();
    if width == 1 {
        for d in &digits {
            v.push(format!("hex:{}", d));
        }
    } else if width == 2 {
        for d in &digits {
            for e in &digits {
                v.push(format!("hex:{}{}", d, e));
            }
        }
    } else {
        for t in alpha::family_capped(n, 0, 1, 600) {
            v.push(format!("hex:{}", t.hex()));
        }
    }
    if (3..=6).contains(&n) {
        let top = if n == 6 { u64::MAX } else { (1u64 << nbits(n)) - 1 };
        for val in [0u64, 1, 2, top, top - 1, top / 3, top / 3 * 2, 1u64 << (nbits(n) - 1)] {
            v.push(format!("int:{}", val));
        }
        if n == 3 {
            for val in 0..256u64 {
                v.push(format!("int:{}", val));
            }
        }
    }
    let cnt = if n <= 3 { 1usize << nbits(n) } else { 70 };
    for k in 0..cnt {
        v.push(format!("allfn:{}", k));
    }
    let _ = st;
    v
}

fn base_case<L: Tab>(run: &Run, st: bool, n: usize) {
    let inits = constructor_inits(n, run.thorough(), st);
    let name = format!("BASE constructors/parsers/conversions n={} {}", n, L::tname(n));
    let total = inits.len() as u64;
    run.section(&name, false, "every constructor with all its arguments (symmetric: all count masks up to n=9 quick / 12 thorough), every hex string of the right width over [0-9a-fA-F] for width<=2, From<int>, all_functions items", total, 64, |r, l| {
        for k in r {
            let init = &inits[k as usize];
            l.states += 1;
            l.nontrivial += 1;
            match run_history::<L>(n, init, &[]) {
                Ok(()) => l.tr(hash_str(init), n as u64, 0),
                Err(v) => {
                    l.transitions += 1;
                    l.validated += 1;
                    report_hist(l, st, n, init, &[], v);
                }
            }
            if k == total / 2 {
                l.sample(J::s(case_hist(st, n, init, &[])));
            }
        }
    });
}

// ---------------------------------------------------------------------------------------
// Inductive step: complete one-step sweep from every well-formed state.

fn sweep_step<L: Tab>(run: &Run, st: bool, n: usize) {
    let size = 1u64 << nbits(n);
    let pool = alpha::pool(n, run.seed);
    let bits: Vec<usize> = (0..nbits(n)).collect();
    let ops = hist::op_alphabet(n, &pool, &bits, &[0, 1, 5, 6]);
    let name = format!("SWEEP all well-formed states n={} {} x {} operations", n, L::tname(n), ops.len());
    run.section(&name, true, "complete one-step exploration from every well-formed state (inductive step); binary operands from the pool", size, 16, |r, l| {
        for x in r {
            let t = TT::from_u64(n, x);
            l.states += 1;
            let base = guarded(|| {
                let s: L = mk_tt(&t);
                invariant(&s, n, true).map(|_| s)
            });
            let s = match base {
                Ok(Ok(s)) => s,
                Ok(Err(v)) => {
                    report_hist(l, st, n, &format!("blocks:{}", fmt_words(&t.w)), &[], v);
                    continue;
                }
                Err(p) => {
                    report_hist(l, st, n, &format!("blocks:{}", fmt_words(&t.w)), &[], ("from_blocks returns".into(), p));
                    continue;
                }
            };
            for (k, op) in ops.iter().enumerate() {
                let nm = hist::op_model(&t, op).expect("model op");
                let res = guarded(|| {
                    let nx = hist::op_subject(&s, op)?;
                    match invariant(&nx, n, false) {
                        Ok(()) => Ok(nx),
                        Err((e, o)) => Err(format!("{} — observed {}", e, o)),
                    }
                });
                match res {
                    Ok(Ok(nx)) if nx.t_blocks() == &nm.w[..] => {
                        l.tr(x, k as u64, nx.t_blocks()[0]);
                        l.nontrivial += (nm != t) as u64;
                    }
                    _ => {
                        l.transitions += 1;
                        l.validated += 1;
                        let init = format!("blocks:{}", fmt_words(&t.w));
                        let opsv = vec![op.clone()];
                        match run_history::<L>(n, &init, &opsv) {
                            Err(v) => report_hist(l, st, n, &init, &opsv, v),
                            Ok(()) => run.machinery(format!("C02 sweep and history paths disagree on {}", case_hist(st, n, &init, &opsv))),
                        }
                    }
                }
            }
            if x == size / 3 {
                l.sample(J::s(case_hist(st, n, &format!("blocks:{}", fmt_words(&t.w)), &[ops[ops.len() / 2].clone()])));
            }
        }
    });
}

/// n = 5 complete (thorough): WF of every successor of every state, static type, on the encoding.
fn sweep5(run: &Run) {
    let n = 5usize;
    let pool: Vec<u64> = alpha::pool(n, run.seed).iter().map(|t| t.w[0]).take(6).collect();
    run.section("SWEEP all 2^32 well-formed states n=5 Lut5: successors of not/flip/swap/cofactors/from_cofactors/and/or/xor/set/unset/next stay well-formed", true, "complete one-step exploration of the well-formedness invariant from every 5-variable state", 1u64 << 32, 1 << 18, |r, l| {
        for x in r {
            let res = guarded(|| {
                let s = volute::Lut5::from_blocks(&[x]);
                let mut acc = 0u64; // OR of all successor words: any stray bit shows up
                let mut cnt = 0u64;
                let mut h = 0u64;
                let mut see = |w: u64| {
                    acc |= w;
                    cnt += 1;
                    h = h.wrapping_mul(31).wrapping_add(w);
                };
                see(s.not().blocks()[0]);
                see((!s).blocks()[0]);
                for i in 0..n {
                    see(s.flip(i).blocks()[0]);
                    let c = s.cofactors(i);
                    see(c.0.blocks()[0]);
                    see(c.1.blocks()[0]);
                    for j in (i + 1)..n {
                        see(s.swap(i, j).blocks()[0]);
                    }
                    for p in &pool {
                        let pl = volute::Lut5::from_blocks(&[*p]);
                        see(volute::Lut5::from_cofactors(&s, &pl, i).blocks()[0]);
                    }
                }
                for p in &pool {
                    let pl = volute::Lut5::from_blocks(&[*p]);
                    see((s & pl).blocks()[0]);
                    see((s | pl).blocks()[0]);
                    see((s ^ pl).blocks()[0]);
                }
                for m in [0usize, 15, 16, 31] {
                    let mut y = s;
                    y.set_bit(m);
                    see(y.blocks()[0]);
                    y.unset_bit(m);
                    see(y.blocks()[0]);
                }
                let mut it = volute::Lut5::verif_iter_from(s);
                it.next();
                if let Some(nx) = it.next() {
                    see(nx.blocks()[0]);
                }
                (acc, cnt, h)
            });
            l.states += 1;
            match res {
                Ok((acc, cnt, h)) if acc >> 32 == 0 => {
                    l.transitions += cnt;
                    l.validated += cnt;
                    l.nontrivial += 1;
                    l.digest ^= crate::engine::mix3(x, cnt, h);
                }
                _ => {
                    // find the offending operation through the history interpreter
                    let t = TT::from_u64(n, x);
                    let poolt = alpha::pool(n, run.seed);
                    let ops = hist::op_alphabet(n, &poolt[..6.min(poolt.len())], &[0, 15, 16, 31], &[2]);
                    let init = format!("blocks:{}", fmt_words(&t.w));
                    let before = l.viol_count;
                    for op in ops {
                        let opsv = vec![op];
                        if let Err(v) = run_history::<volute::Lut5>(n, &init, &opsv) {
                            report_hist(l, true, n, &init, &opsv, v);
                        }
                    }
                    if l.viol_count == before {
                        run.machinery(format!("C02 n=5 fast path flags table {:x} but no operation reproduces it", x));
                    }
                }
            }
        }
    });
}

// ---------------------------------------------------------------------------------------
// REACH: breadth-first reachability with the differential check.

struct Node {
    parent: usize,
    op: String,
    init: String,
    depth: usize,
}

fn history_of(nodes: &[Node], mut k: usize) -> (String, Vec<String>) {
    let mut ops = Vec::new();
    while nodes[k].parent != usize::MAX {
        ops.push(nodes[k].op.clone());
        k = nodes[k].parent;
    }
    ops.reverse();
    (nodes[k].init.clone(), ops)
}

/// BFS from `inits` under the operation alphabet; binary operands are drawn from the visited
/// set itself when `saturate` (fixpoint for small n) or from `pool`. The visited map is keyed
/// by the *function* (value vector); arriving at a known function with different blocks is
/// the differential violation.
fn reach<L: Tab>(run: &Run, st: bool, n: usize, inits: Vec<String>, saturate: bool, depth: usize, cap: usize) {
    let name = format!("REACH n={} {} from {} constructor/parser outputs, depth<={}{}", n, L::tname(n), inits.len(), depth, if saturate { ", binary operands = visited set (saturation)" } else { "" });
    run.section_seq(&name, saturate, if saturate { "closed to a fixpoint: every operation of the alphabet from every reachable state, binary operands over the whole visited set" } else { "depth- and cap-bounded (see reach_* in the coverage)" }, |l| {
        let mut nodes: Vec<Node> = Vec::new();
        let mut states: Vec<L> = Vec::new();
        let mut visited: HashMap<Vec<u64>, usize> = HashMap::new(); // value vector -> node
        let mut frontier: Vec<usize> = Vec::new();
        let value_key = |s: &L| -> Vec<u64> { if n <= 8 { abs_by_value(s).w } else { s.t_blocks().to_vec() } };
        for init in &inits {
            let r = guarded(|| hist::init_subject::<L>(n, init));
            let s = match r {
                Ok(Ok(Some(s))) => s,
                Ok(Ok(None)) => continue,
                Ok(Err(e)) => {
                    run.machinery(format!("C02 reach init {}: {}", init, e));
                    continue;
                }
                Err(p) => {
                    report_hist(l, st, n, init, &[], ("constructor returns".into(), p));
                    continue;
                }
            };
            if s.t_nv() != n {
                continue; // Lut::default() has 0 variables
            }
            if let Ok(Err(v)) = guarded(|| invariant(&s, n, true)) {
                report_hist(l, st, n, init, &[], v);
                continue;
            }
            let key = value_key(&s);
            match visited.get(&key) {
                Some(k) => {
                    if states[*k].t_blocks() != s.t_blocks() {
                        report_hist(l, st, n, init, &[], (format!("same blocks as the same function reached by {:?}", history_of(&nodes, *k)), show(&s)));
                    }
                }
                None => {
                    visited.insert(key, nodes.len());
                    frontier.push(nodes.len());
                    nodes.push(Node { parent: usize::MAX, op: String::new(), init: init.clone(), depth: 0 });
                    states.push(s);
                }
            }
        }
        let pool = alpha::pool(n, run.seed);
        let bits: Vec<usize> = if n <= 4 { (0..nbits(n)).collect() } else { vec![0, 1, nbits(n) / 2, nbits(n) - 1] };
        let mut completed = 0;
        let mut capped = false;
        for d in 1..=depth {
            if frontier.is_empty() {
                break;
            }
            let mut next = Vec::new();
            // operands: the whole visited set when saturating
            let operands: Vec<TT> = if saturate { states.iter().map(|s| TT { n, w: s.t_blocks().to_vec() }).filter(|t| well_formed(n, &t.w)).collect() } else { pool.iter().take(if n <= 6 { pool.len() } else { 6 }).cloned().collect() };
            let ops = hist::op_alphabet(n, &operands, &bits, &[5]);
            let work: Vec<usize> = if saturate { (0..states.len()).collect() } else { frontier.clone() };
            // expand the frontier in parallel; each worker keeps only successors that are new
            // with respect to the previous levels (or differ in blocks from the visited entry),
            // the merge below is sequential and in canonical order
            struct Succ {
                k: usize,
                oi: usize,
                blocks: Vec<u64>,
                key: Vec<u64>,
            }
            struct Out {
                tr: u64,
                nontriv: u64,
                digest: u64,
                succ: Vec<Succ>,
                viols: Vec<(usize, usize, (String, String))>,
            }
            let nw = crate::engine::num_workers().min(work.len().max(1));
            let chunk = (work.len() + nw - 1) / nw.max(1);
            let mut outs: Vec<Out> = Vec::new();
            std::thread::scope(|sc| {
                let mut hs = Vec::new();
                for part in work.chunks(chunk.max(1)) {
                    let (states, visited, ops) = (&states, &visited, &ops);
                    hs.push(sc.spawn(move || {
                        let mut out = Out { tr: 0, nontriv: 0, digest: 0, succ: Vec::new(), viols: Vec::new() };
                        for &k in part {
                            let s = &states[k];
                            let t = TT { n, w: s.t_blocks().to_vec() };
                            for (oi, op) in ops.iter().enumerate() {
                                let nm = hist::op_model(&t, op).expect("model op");
                                let nx = guarded(|| hist::op_subject(s, op));
                                let nx = match nx {
                                    Ok(Ok(x)) => x,
                                    Ok(Err(e)) => {
                                        out.viols.push((k, oi, (format!("{} returns {}", op, show_tt(&nm)), e)));
                                        continue;
                                    }
                                    Err(p) => {
                                        out.viols.push((k, oi, (format!("{} returns {}", op, show_tt(&nm)), p)));
                                        continue;
                                    }
                                };
                                out.tr += 1;
                                out.nontriv += (nm != t) as u64;
                                out.digest ^= crate::engine::mix3(hash_words(&t.w), oi as u64, hash_words(nx.t_blocks()));
                                match guarded(|| invariant(&nx, n, false)) {
                                    Ok(Ok(())) => {}
                                    Ok(Err(v)) => {
                                        out.viols.push((k, oi, v));
                                        continue;
                                    }
                                    Err(p) => {
                                        out.viols.push((k, oi, ("invariant evaluates".into(), p)));
                                        continue;
                                    }
                                }
                                if nx.t_blocks() != &nm.w[..] {
                                    out.viols.push((k, oi, (format!("{} gives {}", op, show_tt(&nm)), show(&nx))));
                                    continue;
                                }
                                let key = if n <= 8 { abs_by_value(&nx).w } else { nx.t_blocks().to_vec() };
                                match visited.get(&key) {
                                    Some(j) if states[*j].t_blocks() == nx.t_blocks() => {}
                                    _ => out.succ.push(Succ { k, oi, blocks: nx.t_blocks().to_vec(), key }),
                                }
                            }
                        }
                        out
                    }));
                }
                for h in hs {
                    match h.join() {
                        Ok(o) => outs.push(o),
                        Err(e) => std::panic::resume_unwind(e),
                    }
                }
            });
            let mut succ: Vec<Succ> = Vec::new();
            let mut vio: Vec<(usize, usize, (String, String))> = Vec::new();
            for o in outs {
                l.transitions += o.tr;
                l.validated += o.tr;
                l.nontrivial += o.nontriv;
                l.digest ^= o.digest;
                succ.extend(o.succ);
                vio.extend(o.viols);
            }
            vio.sort_by(|a, b| (a.0, a.1).cmp(&(b.0, b.1)));
            for (k, oi, v) in vio {
                let (init, mut hops) = history_of(&nodes, k);
                hops.push(ops[oi].clone());
                report_hist(l, st, n, &init, &hops, v);
            }
            succ.sort_by(|a, b| (a.k, a.oi).cmp(&(b.k, b.oi)));
            for sx in succ {
                match visited.get(&sx.key) {
                    Some(j) => {
                        if states[*j].t_blocks() != &sx.blocks[..] {
                            let (init, mut hops) = history_of(&nodes, sx.k);
                            hops.push(ops[sx.oi].clone());
                            report_hist(l, st, n, &init, &hops, (format!("same blocks as the same function reached by {:?}: {}", history_of(&nodes, *j), show(&states[*j])), format!("[{}]", fmt_words(&sx.blocks))));
                        }
                    }
                    None => {
                        if nodes.len() >= cap {
                            capped = true;
                            continue;
                        }
                        visited.insert(sx.key, nodes.len());
                        next.push(nodes.len());
                        nodes.push(Node { parent: sx.k, op: ops[sx.oi].clone(), init: String::new(), depth: d });
                        states.push(mk::<L>(n, &sx.blocks));
                    }
                }
            }
            completed = d;
            frontier = next;
            if saturate && frontier.is_empty() {
                break;
            }
        }
        l.states += nodes.len() as u64;
        let fix = frontier.is_empty();
        if capped {
            run.cap_hit(format!("REACH n={} {}: state cap {} hit at depth {}", n, L::tname(n), cap, completed));
        }
        run.extra(&format!("reach_n{}_{}", n, if st { "static" } else { "dynamic" }), J::obj().with("states", J::i(nodes.len() as u64)).with("depth_completed", J::i(completed as u64)).with("fixpoint", J::Bool(fix)).with("cap_hit", J::Bool(capped)).with("frontier_left", J::i(frontier.len() as u64)));
        if let Some(k) = nodes.iter().rposition(|x| x.depth == completed) {
            let (i, o) = history_of(&nodes, k);
            l.sample(J::s(case_hist(st, n, &i, &o)));
        }
    });
}

// ---------------------------------------------------------------------------------------
// EXT on pairs.

fn ext_pair<L: Tab>(na: usize, a: &[u64], nb: usize, b: &[u64]) -> Verdict {
    let r = guarded(|| {
        let la: L = mk(na, a);
        let lb: L = mk(nb, b);
        let same = na == nb && (0..nbits(na)).all(|m| la.t_value(m) == lb.t_value(m));
        (same, la == lb, std_hash(&la) == std_hash(&lb), la.cmp(&lb), lb.cmp(&la), la.partial_cmp(&lb))
    });
    match r {
        Err(p) => fail("==, hash and cmp return", p),
        Ok((same, eq, heq, c, rc, pc)) => {
            if same != eq {
                return fail(format!("== is {} (same number of variables and same value on every assignment: {})", same, same), format!("== returned {}", eq));
            }
            if same && !heq {
                return fail("equal tables hash equal", "hashes differ");
            }
            if (c == std::cmp::Ordering::Equal) != same || pc != Some(c) || rc != c.reverse() {
                return fail(format!("cmp == Equal iff equal ({}), partial_cmp consistent, antisymmetric", same), format!("cmp={:?} partial_cmp={:?} reverse={:?}", c, pc, rc));
            }
            Ok(())
        }
    }
}

fn report_pair(l: &mut Local, st: bool, na: usize, a: &[u64], nb: usize, b: &[u64], v: (String, String)) {
    let key = format!("{:02}|{}|pair|{:02}|{}|{}", nb, tyname(st), na, fmt_words(a), fmt_words(b));
    l.violation(key, &format!("C02/{}/ext-pair", if st { "LutN" } else { "Lut" }), format!("ty={};n={};kind=pair;na={};a={};b={}", tyname(st), nb, na, fmt_words(a), fmt_words(b)), v.0, v.1);
}

fn ext_pairs_small<L: Tab>(run: &Run, st: bool, n: usize) {
    // all pairs of n-variable tables; for the dynamic type also every table of every smaller size
    let size = 1u64 << nbits(n);
    let name = format!("EXT all pairs n={} {}{}", n, L::tname(n), if st { "" } else { " (+ all cross-size pairs with smaller n)" });
    run.section(&name, true, "complete: ==, Hash, cmp versus value() on every ordered pair", size * size, 1024, |r, l| {
        for idx in r {
            let (a, b) = (idx / size, idx % size);
            l.states += 1;
            l.nontrivial += (a != b) as u64;
            match ext_pair::<L>(n, &[a], n, &[b]) {
                Ok(()) => l.tr(a, b, 0),
                Err(v) => report_pair(l, st, n, &[a], n, &[b], v),
            }
            if !st && b == 0 {
                for m in 0..n {
                    for c in 0..(1u64 << nbits(m)) {
                        l.states += 1;
                        l.nontrivial += 1;
                        match ext_pair::<L>(m, &[c], n, &[a]) {
                            Ok(()) => l.tr(a, c, m as u64 + 1),
                            Err(v) => report_pair(l, st, m, &[c], n, &[a], v),
                        }
                    }
                }
            }
        }
    });
}

fn ext_pairs_large<L: Tab>(run: &Run, st: bool, n: usize) {
    let bases = alpha::word_patterns(n, run.seed, 0);
    let nb = nbits(n);
    let positions: Vec<usize> = if n <= 8 || (run.thorough() && n <= 9) {
        (0..nb).collect()
    } else {
        let mut v = Vec::new();
        for w in 0..nwords(n) {
            for o in [0usize, 1, 31, 32, 62, 63] {
                v.push(w * 64 + o);
            }
        }
        v
    };
    let np = positions.len() as u64;
    let name = format!("EXT single-bit deviation pairs n={} {}", n, L::tname(n));
    run.section(&name, false, &format!("{} base tables x all ordered pairs (t^e_p, t^e_q), p,q over {} positions", bases.len(), np), bases.len() as u64 * np, 4, |r, l| {
        for idx in r {
            let base = &bases[(idx / np) as usize];
            let p = positions[(idx % np) as usize];
            let mut a = base.clone();
            a.set(p, !base.get(p));
            let res = guarded(|| {
                let la: L = mk_tt(&a);
                let ha = std_hash(&la);
                let mut bad = Vec::new();
                for q in &positions {
                    let mut b = base.clone();
                    b.set(*q, !base.get(*q));
                    let lb: L = mk_tt(&b);
                    let same = p == *q;
                    let ok = (la == lb) == same && (la.cmp(&lb) == std::cmp::Ordering::Equal) == same && (!same || ha == std_hash(&lb));
                    if !ok {
                        bad.push(*q);
                    }
                }
                bad
            });
            l.states += np;
            l.nontrivial += np - 1;
            l.transitions += np;
            l.validated += np;
            l.digest ^= crate::engine::mix3(idx, p as u64, np);
            let bad = match res {
                Ok(b) => b,
                Err(_) => positions.clone(),
            };
            for q in bad {
                let mut b = base.clone();
                b.set(q, !base.get(q));
                if let Err(v) = ext_pair::<L>(n, &a.w, n, &b.w) {
                    report_pair(l, st, n, &a.w, n, &b.w, v);
                }
            }
        }
    });
}

/// Conversions between sizes: whatever `LutN::try_from(Lut)` returns as Ok must satisfy the
/// invariant (that it fails exactly when the sizes differ is C10's check).
fn tryfrom_base(run: &Run) {
    let mut cases: Vec<(usize, usize, TT)> = Vec::new();
    for m in 0..=9usize {
        let pats = alpha::word_patterns(m, run.seed, 0);
        let mut ts = vec![TT::zero(m).not(), pats[pats.len() - 1].clone(), pats[4].clone()];
        if m > 0 {
            ts.push(TT::from_fn(m, |a| (a >> (m - 1)) & 1 != 0));
        }
        for big in 0..=12usize {
            for t in &ts {
                cases.push((m, big, t.clone()));
            }
        }
    }
    let total = cases.len() as u64;
    run.section("BASE conversions Lut(m) -> LutN for all m <= 9, N <= 12: every Ok result is well-formed and extensional", false, "4 tables per source size (all-ones, irregular, top projection); 10 x 13 size pairs", total, 16, |r, l| {
        for k in r {
            let (m, big, t) = &cases[k as usize];
            l.states += 1;
            l.transitions += 1;
            l.validated += 1;
            let res = guarded(|| super::c10::try_from_dyn(*m, &t.w, *big));
            match res {
                Ok(Err(())) => l.tr(*m as u64, *big as u64, 0),
                Ok(Ok(w)) => {
                    fn inv<L: Tab>(n: usize, w: &[u64]) -> Verdict {
                        // the converted table as the subject holds it: rebuild through the same conversion is not
                        // possible for malformed blocks, so judge the returned block view directly, then the object
                        if !well_formed(n, w) {
                            return fail(format!("a well-formed Lut{}: {} block(s), no bit at a position >= {}", n, nwords(n), nbits(n)), format!("blocks [{}]", fmt_words(w)));
                        }
                        let s: L = mk(n, w);
                        invariant(&s, n, true)
                    }
                    let v = if *big <= 12 { for_static!(*big, inv(*big, &w)) } else { Ok(()) };
                    match v {
                        Ok(()) => {
                            l.nontrivial += 1;
                            l.tr(*m as u64, *big as u64, hash_words(&w));
                        }
                        Err(e) => {
                            let key = format!("tryfrom|{:02}|{:02}|{}", m, big, fmt_words(&t.w));
                            l.violation(key, "C02/LutN/init:try_from", format!("ty=S;n={};kind=tryfrom;m={};t={}", big, m, fmt_words(&t.w)), format!("LutN::try_from(Lut of {} variables) for N={}: {}", m, big, e.0), e.1);
                        }
                    }
                }
                Err(p) => {
                    // a panic instead of Err is C10's (and C17's) business; not a malformed table
                    l.tr(*m as u64, *big as u64, 1);
                    let _ = p;
                }
            }
        }
    });
}

pub fn run(run: &Run) {
    run.set_rule("state = a table obtained through the public API (identified by its exported block view); transition = one public call with in-range arguments; non-trivial = a state other than a fresh constructor output / a successor different from its predecessor / a pair of different tables");
    run.assume("well-formedness is judged by model::tt::well_formed on the exported blocks(); the reference successor is the model's index-map / pointwise step");
    run.assume("which function the named constructors denote is C11's check, which strings the parser accepts is C09's; here every table they return must be well-formed and extensional");
    fn bc<L: Tab>(run: &Run, st: bool, n: usize) {
        base_case::<L>(run, st, n)
    }
    fn sw<L: Tab>(run: &Run, st: bool, n: usize) {
        sweep_step::<L>(run, st, n)
    }
    fn rc<L: Tab>(run: &Run, st: bool, n: usize, sat: bool, depth: usize, cap: usize) {
        let inits = constructor_inits(n, false, st).into_iter().filter(|s| !s.starts_with("sym:") || s.len() < 7).collect();
        reach::<L>(run, st, n, inits, sat, depth, cap)
    }
    fn ps<L: Tab>(run: &Run, st: bool, n: usize) {
        ext_pairs_small::<L>(run, st, n)
    }
    fn pl<L: Tab>(run: &Run, st: bool, n: usize) {
        ext_pairs_large::<L>(run, st, n)
    }
    tryfrom_base(run);
    let maxn = 14;
    for n in 0..=maxn {
        bc::<volute::Lut>(run, false, n);
        if n <= 12 {
            for_static!(n, bc(run, true, n));
        }
    }
    for n in 0..=4usize {
        for st in [false, true] {
            for_type!(st, n, sw(run, st, n));
        }
    }
    if run.thorough() {
        sweep5(run);
    }
    for n in 0..=3usize {
        for st in [false, true] {
            for_type!(st, n, rc(run, st, n, true, 4, 1 << 20));
            for_type!(st, n, ps(run, st, n));
        }
    }
    let (d_small, d_large) = if run.thorough() { (3, 2) } else { (2, 1) };
    for n in 4..=12usize {
        let depth = if n <= 6 { d_small } else { d_large };
        let cap = if run.thorough() { if n <= 8 { 400_000 } else { 60_000 } } else if n <= 6 { 12_000 } else { 4_000 };
        for st in [false, true] {
            if st && n > 6 && n % 2 == 1 && !run.thorough() {
                continue;
            }
            for_type!(st, n, rc(run, st, n, false, depth, cap));
        }
    }
    for n in 7..=12usize {
        if !run.thorough() && n > 10 {
            continue;
        }
        for st in [false, true] {
            for_type!(st, n, pl(run, st, n));
        }
    }
    // every item any iterator call yields is a table of the public API too
    super::iter::run_sections(run, "C02", if run.thorough() { 10 } else { 8 });
}
