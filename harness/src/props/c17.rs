//! C17 — invalid indices and size mismatches panic identically in every build profile; valid
//! calls return identical results in every profile.
//!
//! CONFIG exploration: this module's `explore` runs in the release binary (no debug
//! assertions, no overflow checks) and, as a child process, in the `checked` binary (both on).
//! Part A: every invalid call of the enumerated alphabet must panic (in each binary).
//! Part B: a fixed valid workload must not panic, and its per-section digests must be equal in
//! the two binaries (joined by the parent).

use super::c10::observe;
use super::common::*;
use super::hist;
use crate::api::{BinOp, Tab};
use crate::engine::json::J;
use crate::engine::{child_run, guarded, hash_str, Case, Local, Run};
use crate::model::alpha;
use crate::model::tt::{nbits, nwords, TT};
use crate::{for_static, for_type};
use volute::Lut;

const INDEX_CALLS: [&str; 13] = ["nth_var", "flip", "flip_inplace", "swap_a", "swap_b", "swap_inplace_a", "swap_inplace_b", "cofactors", "from_cofactors", "top_decomposition", "is_pos_unate", "is_neg_unate", "swap_both"];
const ADJ_CALLS: [&str; 2] = ["swap_adjacent", "swap_adjacent_inplace"];
const BIT_CALLS: [&str; 6] = ["value", "get_bit", "set_bit", "unset_bit", "set_value_true", "set_value_false"];

/// Execute one call with an invalid argument; returns a description of what it returned.
fn do_call<L: Tab>(t: &TT, call: &str, a: usize) -> String {
    let n = t.n;
    let l: L = mk_tt(t);
    let valid = if n > 0 { (a % n.max(1)).min(n - 1) } else { a };
    let mut m = l.clone();
    match call {
        "nth_var" => show(&L::t_nth_var(n, a)),
        "flip" => show(&l.t_flip(a)),
        "flip_inplace" => {
            m.t_flip_inplace(a);
            show(&m)
        }
        "swap_a" => show(&l.t_swap(a, valid)),
        "swap_b" => show(&l.t_swap(valid, a)),
        "swap_both" => show(&l.t_swap(a, a)),
        "swap_inplace_a" => {
            m.t_swap_inplace(a, valid);
            show(&m)
        }
        "swap_inplace_b" => {
            m.t_swap_inplace(valid, a);
            show(&m)
        }
        "swap_adjacent" => show(&l.t_swap_adjacent(a).0),
        "swap_adjacent_inplace" => {
            m.t_swap_adjacent_inplace(a);
            show(&m)
        }
        "cofactors" => {
            let c = l.t_cofactors(a);
            format!("({}, {})", show(&c.0), show(&c.1))
        }
        "from_cofactors" => show(&L::t_from_cofactors(&l, &l.t_not(), a)),
        "top_decomposition" => crate::api::dec_name(&l.t_top_decomposition(a)).to_string(),
        "is_pos_unate" => l.t_is_pos_unate(a).to_string(),
        "is_neg_unate" => l.t_is_neg_unate(a).to_string(),
        "value" => l.t_value(a).to_string(),
        "get_bit" => l.t_get_bit(a).to_string(),
        "set_bit" => {
            m.t_set_bit(a);
            show(&m)
        }
        "unset_bit" => {
            m.t_unset_bit(a);
            show(&m)
        }
        "set_value_true" => {
            m.t_set_value(a, true);
            show(&m)
        }
        "set_value_false" => {
            m.t_set_value(a, false);
            show(&m)
        }
        "from_blocks" => show(&L::t_from_blocks(n, &vec![0x55u64; a])),
        _ => panic!("harness: unknown call"),
    }
}

fn invalid_one<L: Tab>(t: &TT, call: &str, a: usize) -> Verdict {
    match guarded(|| do_call::<L>(t, call, a)) {
        Err(_) => Ok(()),
        Ok(ret) => fail(format!("{}({}) on a {}-variable table panics (invalid argument), in every build profile", call, if a == usize::MAX { "usize::MAX".to_string() } else { a.to_string() }, t.n), format!("returned {} [{} profile]", ret, crate::engine::profile())),
    }
}

/// size-mismatched operands (dynamic type only: the static types cannot be mismatched)
fn mismatch_one(n1: usize, n2: usize, call: &str, form: usize) -> Verdict {
    let r = guarded(|| {
        let a = Lut::nth_var(n1.max(1), 0);
        let a = if n1 == 0 { Lut::one(0) } else { a };
        let b = if n2 == 0 { Lut::one(0) } else { Lut::parity(n2) };
        match call {
            "and" | "or" | "xor" => show(&Lut::t_binary_form(BinOp::from_name(call).unwrap(), form, &a, &b).0),
            "from_cofactors" => show(&Lut::from_cofactors(&a, &b, 0)),
            "bdd_complexity" => Lut::bdd_complexity(&[a, b]).to_string(),
            "bdd_complexity3" => Lut::bdd_complexity(&[a.clone(), a, b]).to_string(),
            _ => panic!("harness: unknown call"),
        }
    });
    match r {
        Err(_) => Ok(()),
        Ok(ret) => fail(format!("{} (form {}) on tables of {} and {} variables panics, in every build profile", call, form, n1, n2), format!("returned {} [{} profile]", ret, crate::engine::profile())),
    }
}

pub fn replay(case: &Case) -> Result<Verdict, String> {
    match case.get("kind")? {
        "invalid" => {
            let st = parse_ty(case.get("ty")?)?;
            let n = case.usize("n")?;
            let t = TT::from_words(n, &case.words("t")?).ok_or("t malformed")?;
            let call = case.get("call")?.to_string();
            let a = if case.get("a")? == "max" { usize::MAX } else { case.usize("a")? };
            fn go<L: Tab>(t: &TT, call: &str, a: usize) -> Verdict {
                invalid_one::<L>(t, call, a)
            }
            Ok(for_type!(st, n, go(&t, &call, a)))
        }
        "mismatch" => Ok(mismatch_one(case.usize("n1")?, case.usize("n2")?, case.get("call")?, case.usize("form")?)),
        "valid" => {
            // a valid-workload section: recompute in this binary and in the other one
            let name = case.get("section")?.to_string();
            let mine = valid_digest_of(&name, 0);
            match mine {
                Err(v) => Ok(Err(v)),
                Ok(d) => {
                    if crate::engine::profile() == "checked" {
                        return Ok(Ok(()));
                    }
                    let exe = std::env::var("LSX_CHECKED").map_err(|_| "LSX_CHECKED not set")?;
                    let out = std::process::Command::new(exe).arg("sub").arg("c17digest").arg(&name).output().map_err(|e| e.to_string())?;
                    let other = String::from_utf8_lossy(&out.stdout).trim().to_string();
                    if other == format!("{:016x}", d) {
                        Ok(Ok(()))
                    } else {
                        Ok(fail(format!("valid workload '{}': identical results in both build profiles (release digest {:016x})", name, d), format!("checked profile: {}", other)))
                    }
                }
            }
        }
        k => Err(format!("unknown kind {}", k)),
    }
}

fn arg_s(a: usize) -> String {
    if a == usize::MAX {
        "max".into()
    } else {
        a.to_string()
    }
}

fn invalid_indices(n: usize) -> Vec<usize> {
    (n..=n + 70).chain([usize::MAX, usize::MAX - 1, 1usize << 63, (1usize << 32) + n, 64 + n, 128 + n]).collect()
}

fn invalid_section<L: Tab>(run: &Run, st: bool, n: usize) {
    let prof = run.profile;
    let pats = alpha::word_patterns(n, run.seed, 0);
    let pool: Vec<TT> = vec![TT::zero(n), TT::zero(n).not(), pats[pats.len() - 1].clone(), pats[4].clone()];
    let idx = invalid_indices(n);
    let bits: Vec<usize> = (nbits(n)..=nbits(n) + 70).chain([usize::MAX, usize::MAX - 1, 1usize << 63, nbits(n) * 2, nbits(n) + 64, nbits(n) + 4096]).collect();
    let adj: Vec<usize> = (n.saturating_sub(1)..=n + 70).chain([usize::MAX, usize::MAX - 1]).collect();
    let lens: Vec<usize> = (0..=nwords(n) + 2).filter(|k| *k != nwords(n)).collect();
    let mut calls: Vec<(&str, usize)> = Vec::new();
    for c in INDEX_CALLS {
        for a in &idx {
            calls.push((c, *a));
        }
    }
    for c in ADJ_CALLS {
        for a in &adj {
            calls.push((c, *a));
        }
    }
    for c in BIT_CALLS {
        for a in &bits {
            calls.push((c, *a));
        }
    }
    for a in &lens {
        calls.push(("from_blocks", *a));
    }
    let total = calls.len() as u64;
    run.section(
        &format!("INVALID n={} {} ({} profile): {} calls x {} tables: indices n..=n+70, usize::MAX...; bits 2^n..=2^n+70...; wrong block counts", n, L::tname(n), prof, total, pool.len()),
        false,
        "every index-taking public method x every invalid index of the stated set x a small table pool; outcome in {panicked, returned}",
        total,
        32,
        |r, l| {
            for k in r {
                let (call, a) = calls[k as usize];
                for (ti, t) in pool.iter().enumerate() {
                    if (call == "nth_var" || call == "from_blocks") && ti > 0 {
                        continue;
                    }
                    l.states += 1;
                    l.transitions += 1;
                    l.validated += 1;
                    match invalid_one::<L>(t, call, a) {
                        Ok(()) => {
                            l.nontrivial += 1;
                            l.outcome("panicked");
                            l.digest ^= crate::engine::mix3(hash_str(call), a as u64, n as u64 * 8 + ti as u64);
                        }
                        Err(v) => {
                            l.outcome("returned");
                            let base = call.trim_end_matches("_a").trim_end_matches("_b").trim_end_matches("_both").trim_end_matches("_true").trim_end_matches("_false");
                            let key = format!("{:02}|{}|{}|{}|{:020}|{}", n, tyname(st), prof, call, a, ti);
                            l.violation(key, &format!("C17/{}/returns-on-invalid-argument", base), format!("kind=invalid;ty={};n={};t={};call={};a={};prof={}", tyname(st), n, crate::engine::fmt_words(&t.w), call, arg_s(a), prof), v.0, v.1);
                        }
                    }
                }
                if k == total / 2 {
                    l.sample(J::s(format!("kind=invalid;ty={};n={};call={};a={};prof={}", tyname(st), n, call, arg_s(a), prof)));
                }
            }
        },
    );
}

fn mismatch_section(run: &Run) {
    let prof = run.profile;
    let mut cases: Vec<(usize, usize, &str, usize)> = Vec::new();
    for n1 in 0..=8usize {
        for n2 in 0..=8usize {
            if n1 != n2 {
                for op in ["and", "or", "xor"] {
                    for f in 0..8 {
                        cases.push((n1, n2, op, f));
                    }
                }
                cases.push((n1, n2, "from_cofactors", 0));
                cases.push((n1, n2, "bdd_complexity", 0));
                cases.push((n1, n2, "bdd_complexity3", 0));
            }
        }
    }
    let total = cases.len() as u64;
    run.section(&format!("MISMATCH ({} profile): every binary method / operator form / from_cofactors / bdd_complexity on every size-mismatched pair n1 != n2 <= 8", prof), true, "complete over the size pairs and the call forms (dynamic type)", total, 16, |r, l| {
        for k in r {
            let (n1, n2, call, form) = cases[k as usize];
            l.states += 1;
            l.transitions += 1;
            l.validated += 1;
            match mismatch_one(n1, n2, call, form) {
                Ok(()) => {
                    l.nontrivial += 1;
                    l.outcome("panicked");
                    l.digest ^= crate::engine::mix3(hash_str(call), form as u64, (n1 * 16 + n2) as u64);
                }
                Err(v) => {
                    l.outcome("returned");
                    l.violation(format!("mismatch|{}|{}|{}|{}|{}", prof, n1, n2, call, form), &format!("C17/{}/returns-on-size-mismatch", call), format!("kind=mismatch;n1={};n2={};call={};form={};prof={}", n1, n2, call, form, prof), v.0, v.1);
                }
            }
        }
    });
}

// ------------------------------------------------------------------------------------------
// Part B: the valid workload

fn valid_tables(name: &str, seed: u64) -> Option<(usize, bool, Vec<TT>)> {
    // name = "n<k>-<D|S>"
    let (a, b) = name.split_once('-')?;
    let n: usize = a.trim_start_matches('n').parse().ok()?;
    let st = b == "S";
    let tables: Vec<TT> = if n <= 3 {
        (0..(1u64 << nbits(n))).map(|x| TT::from_u64(n, x)).collect()
    } else if n == 4 {
        let step = if std::env::var("LSX_C17_FULL").is_ok() { 1 } else { 5 };
        (0..(1u64 << 16)).step_by(step).map(|x| TT::from_u64(n, x)).collect()
    } else {
        alpha::family_capped(n, seed, 1, 1200)
    };
    Some((n, st, tables))
}

/// digest of all observations of the section's tables; Err if any valid call panicked
fn valid_digest_of(name: &str, seed: u64) -> Result<u64, (String, String)> {
    let (n, st, tables) = valid_tables(name, seed).ok_or(("harness".to_string(), format!("bad section {}", name)))?;
    let pool = alpha::pool(n, seed);
    let mut operands: Vec<TT> = vec![pool[pool.len() - 1].clone(), pool[pool.len() / 2].clone()];
    if n > 0 {
        operands.push(TT::from_fn(n, |m| (m >> (n - 1)) & 1 != 0));
        operands.push(TT::from_fn(n, |m| alpha::popcount(m) % 2 == 1));
    } else {
        operands.push(pool[0].clone());
    }
    let bits: Vec<usize> = if n <= 4 { (0..nbits(n)).collect() } else { vec![0, 1, nbits(n) / 2, nbits(n) - 1] };
    let ops = hist::op_alphabet(n, &operands, &bits, &[1, 5, 6]);
    let others: Vec<TT> = pool.iter().rev().take(3).cloned().collect();
    fn obs<L: Tab>(t: &TT, ops: &[String], others: &[TT], canon: bool) -> Vec<(String, String)> {
        observe::<L>(t, ops, others, canon)
    }
    let per: Vec<Result<u64, (String, String)>> = crate::engine::par_map(&tables, |t| {
        let canon = n <= 5 || (n == 6 && t.w[0] % 7 == 0);
        let v = for_type!(st, n, obs(t, &ops, &others, canon));
        let mut h = 0u64;
        for (k, val) in &v {
            if val.starts_with("<panic") {
                return fail(format!("valid call `{}` on {} returns without panicking in the {} profile", k, show_tt(t), crate::engine::profile()), val.clone());
            }
            h = h.rotate_left(7) ^ hash_str(val) ^ hash_str(k);
        }
        Ok(crate::engine::mix(h ^ crate::engine::hash_words(&t.w)))
    });
    let mut d = 0u64;
    for p in per {
        d ^= p?;
    }
    // constructors with the whole argument domain of C11, and iterator steps across word carries
    let mut inits: Vec<String> = vec!["zero".into(), "one".into(), "parity".into(), "majority".into()];
    for k in (0..=n + 2).chain([63usize, 64, 65, usize::MAX]) {
        inits.push(format!("thr:{}", k));
        inits.push(format!("eq:{}", k));
    }
    for c in 0..(1usize << (n + 1)).min(512) {
        inits.push(format!("sym:{}", c));
    }
    for init in inits {
        fn mkinit<L: Tab>(n: usize, init: &str) -> Result<Vec<u64>, String> {
            guarded(|| hist::init_subject::<L>(n, init).map(|o| o.map(|l| l.t_blocks().to_vec()).unwrap_or_default())).and_then(|r| r)
        }
        match for_type!(st, n, mkinit(n, &init)) {
            Ok(w) => d ^= crate::engine::mix(crate::engine::hash_words(&w) ^ hash_str(&init)),
            Err(p) => return fail(format!("valid constructor {} (n={}) returns in the {} profile", init, n, crate::engine::profile()), p),
        }
    }
    if n >= 6 {
        for k in 0..=nwords(n) {
            let mut w = vec![0x0123_4567_89ab_cdefu64; nwords(n)];
            for x in w.iter_mut().take(k) {
                *x = !0;
            }
            fn step<L: Tab>(n: usize, w: &[u64]) -> Result<Vec<u64>, String> {
                guarded(|| {
                    let mut it = L::t_iter_from(L::t_from_blocks(n, w));
                    it.next();
                    it.next().map(|x| x.t_blocks().to_vec()).unwrap_or_default()
                })
            }
            match for_type!(st, n, step(n, &w)) {
                Ok(r) => d ^= crate::engine::mix(crate::engine::hash_words(&r) ^ k as u64),
                Err(p) => return fail(format!("valid iterator step from a table with {} all-ones low words (n={}) returns in the {} profile", k, n, crate::engine::profile()), p),
            }
        }
    }
    Ok(d)
}

const VALID_SECTIONS: [&str; 16] = ["n0-D", "n0-S", "n1-D", "n1-S", "n2-D", "n2-S", "n3-D", "n3-S", "n4-D", "n4-S", "n6-D", "n6-S", "n7-D", "n7-S", "n8-D", "n8-S"];
const VALID_SECTIONS_THOROUGH: [&str; 8] = ["n5-D", "n5-S", "n9-D", "n9-S", "n10-D", "n10-S", "n12-D", "n12-S"];

fn valid_sections(thorough: bool) -> Vec<&'static str> {
    let mut v: Vec<&'static str> = VALID_SECTIONS.to_vec();
    if thorough {
        v.extend(VALID_SECTIONS_THOROUGH);
    }
    v
}

fn valid_part(run: &Run) {
    let prof = run.profile;
    let mut digests = J::obj();
    for name in valid_sections(run.thorough()) {
        let mut result: Option<Result<u64, (String, String)>> = None;
        let holder = std::sync::Mutex::new(&mut result);
        run.section_seq(&format!("VALID workload {} ({} profile): all operations/observers of the C10 alphabet, constructors, iterator carries", name, prof), false, "n<=3 all tables, n=4 every 5th table, n=6..8 the alphabet; digest joined with the other profile", |l| {
            let r = valid_digest_of(name, run.seed);
            let (_, _, tables) = valid_tables(name, run.seed).unwrap();
            l.states += tables.len() as u64;
            l.transitions += tables.len() as u64 * 100;
            l.validated += tables.len() as u64 * 100;
            l.nontrivial += tables.len() as u64;
            if let Ok(d) = &r {
                l.digest ^= *d;
            }
            if let Err(v) = &r {
                l.violation(format!("valid|{}|{}", prof, name), "C17/valid-call-panics", format!("kind=valid;section={};prof={}", name, prof), v.0.clone(), v.1.clone());
            }
            **holder.lock().unwrap() = Some(r);
        });
        if let Some(Ok(d)) = result {
            digests.set(name, J::s(format!("{:016x}", d)));
        }
    }
    run.extra("valid_digests", digests);
}

pub fn explore(run: &Run) {
    fn inv<L: Tab>(run: &Run, st: bool, n: usize) {
        invalid_section::<L>(run, st, n)
    }
    for n in 0..=12usize {
        for st in [false, true] {
            for_type!(st, n, inv(run, st, n));
        }
    }
    mismatch_section(run);
    valid_part(run);
    let _ = for_static!(0, nop());
}

fn nop<L: Tab>() {}

pub fn sub_digest(name: &str) -> i32 {
    match valid_digest_of(name, 0) {
        Ok(d) => {
            println!("{:016x}", d);
            0
        }
        Err(v) => {
            println!("violation: {} / {}", v.0, v.1);
            0
        }
    }
}

pub fn run(run: &Run) {
    run.set_rule("state = (call, argument tuple, table, build profile); transition = the call under catch_unwind; invalid calls must panic in both binaries; valid workload digests must be equal in both; non-trivial = every invalid call that panicked / every valid table");
    run.assume("two binaries built from the same sources: profile release (debug-assertions and overflow-checks off) and profile checked (both on, same optimisation level)");
    explore(run);
    let child = child_run(run, &[]);
    // join the valid-workload digests of the two profiles
    if let Some(j) = child {
        let mine = run.extra.lock().unwrap().iter().find(|e| e.0 == "valid_digests").map(|e| e.1.clone());
        let theirs = j.get("extra").and_then(|e| e.get("valid_digests")).cloned();
        if let (Some(m), Some(t)) = (mine, theirs) {
            for name in valid_sections(run.thorough()) {
                let a = m.get(name).and_then(|x| x.as_str()).map(|s| s.to_string());
                let b = t.get(name).and_then(|x| x.as_str()).map(|s| s.to_string());
                if let (Some(a), Some(b)) = (a, b) {
                    if a != b {
                        let mut l = Local::default();
                        l.violation(format!("valid|join|{}", name), "C17/valid-results-differ-between-profiles", format!("kind=valid;section={};prof=release", name), format!("valid workload '{}': identical results in both build profiles (release digest {})", name, a), format!("checked profile digest {}", b));
                        run.viols.lock().unwrap().extend(l.viols);
                        run.viol_count.fetch_add(1, std::sync::atomic::Ordering::Relaxed);
                    }
                }
            }
            run.extra("valid_digests_checked_profile", t);
        }
    }
}
