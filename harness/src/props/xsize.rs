//! Call histories on ONE fresh thread ("tours"): the same per-case oracles as the sweeps, but
//! executed in a controlled order on a thread that has seen nothing else, so that state the
//! subject keeps between calls (per-thread caches, grow-only scratch buffers, one-entry memos)
//! is driven through every ordered pair of sizes — both with the size changing slowest
//! (a batch of calls per size) and fastest (the same argument words at consecutive sizes).
//!
//! A violation is identified by (tour number, position): the replay re-executes the tour
//! prefix on a fresh thread and reports the verdict at that position.

use super::common::*;
use crate::engine::json::J;
use crate::engine::{Case, Run};

pub struct Item {
    pub label: String,
    pub f: Box<dyn Fn() -> Verdict + Send + Sync>,
}

pub struct Tour {
    pub name: String,
    pub items: Vec<Item>,
}

impl Tour {
    pub fn new(name: impl Into<String>) -> Tour {
        Tour { name: name.into(), items: Vec::new() }
    }
    pub fn push(&mut self, label: impl Into<String>, f: impl Fn() -> Verdict + Send + Sync + 'static) {
        self.items.push(Item { label: label.into(), f: Box::new(f) });
    }
}

/// a, b for every ordered pair (a, b) of `sizes` (a == b included): every ordered pair occurs
/// as two consecutive entries
pub fn size_pairs(sizes: &[usize]) -> Vec<usize> {
    let mut v = Vec::new();
    for a in sizes {
        for b in sizes {
            v.push(*a);
            v.push(*b);
        }
    }
    v
}

/// the pairs that start with `a` only (one tour per first size, for parallelism)
pub fn size_pairs_from(a: usize, sizes: &[usize]) -> Vec<usize> {
    let mut v = Vec::new();
    for b in sizes {
        v.push(a);
        v.push(*b);
    }
    v
}

/// Run the tour on a fresh thread up to and including position `upto` (None: all of it).
/// Returns the failing positions (at most `maxfail`) with their verdicts.
pub fn run_tour(t: &Tour, upto: Option<usize>, maxfail: usize) -> Vec<(usize, (String, String))> {
    std::thread::scope(|sc| {
        sc.spawn(|| {
            let mut out = Vec::new();
            for (k, it) in t.items.iter().enumerate() {
                if let Some(u) = upto {
                    if k > u {
                        break;
                    }
                }
                if let Err(e) = (it.f)() {
                    out.push((k, e));
                    if out.len() >= maxfail {
                        break;
                    }
                }
            }
            out
        })
        .join()
        .unwrap_or_else(|_| vec![(0, ("harness".to_string(), "tour thread panicked outside the subject".to_string()))])
    })
}

/// One section: `count` tours built by `build(k)`, each on its own fresh thread.
pub fn run_tours(run: &Run, prop: &str, title: &str, bound: &str, count: usize, build: &(dyn Fn(usize) -> Tour + Sync)) {
    let tier = if run.thorough() { "thorough" } else { "quick" };
    run.section(&format!("HISTORY {} ({} tours, each on a fresh thread)", title, count), false, bound, count as u64, 1, |r, l| {
        for k in r {
            let t = build(k as usize);
            let fails = run_tour(&t, None, 3);
            l.states += 1;
            l.transitions += t.items.len() as u64;
            l.validated += t.items.len() as u64;
            l.nontrivial += t.items.len().saturating_sub(1) as u64;
            l.digest ^= crate::engine::mix3(k, t.items.len() as u64, crate::engine::hash_str(&t.name));
            for (pos, v) in fails {
                let label = &t.items[pos].label;
                let prev = if pos > 0 { t.items[pos - 1].label.clone() } else { "(first call on the thread)".to_string() };
                let sig = format!("{}/history/{}", prop, t.name.split(':').next().unwrap_or(""));
                l.violation(
                    format!("tour|{}|{:04}|{:06}", t.name, k, pos),
                    &sig,
                    format!("kind=tour;which={};tour={};pos={};tier={}", title.split(' ').next().unwrap_or(""), k, pos, tier),
                    format!("[call {} of tour '{}': {} — directly after: {}] {}", pos, t.name, label, prev, v.0),
                    v.1,
                );
            }
            if k == 0 {
                l.sample(J::s(format!("tour '{}': {} calls, first: {}", t.name, t.items.len(), t.items.iter().take(4).map(|i| i.label.clone()).collect::<Vec<_>>().join(" ; "))));
            }
        }
    });
}

/// Replay: rebuild tour `tour` and execute its prefix; the verdict is the one at `pos`.
pub fn replay(case: &Case, build: &dyn Fn(&str, usize, bool) -> Result<Tour, String>) -> Result<Verdict, String> {
    let which = case.get("which")?;
    let k = case.usize("tour")?;
    let pos = case.usize("pos")?;
    let thorough = case.get("tier")? == "thorough";
    let t = build(which, k, thorough)?;
    if pos >= t.items.len() {
        return Err("tour position out of range".into());
    }
    let fails = run_tour(&t, Some(pos), usize::MAX);
    Ok(match fails.into_iter().find(|(p, _)| *p == pos) {
        Some((_, v)) => Err(v),
        None => Ok(()),
    })
}
