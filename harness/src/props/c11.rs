//! C11 — named constructors build exactly the functions their names denote.
//!
//! The stated domain is enumerated completely: n = 0..12 (Lut to 14), all i < n,
//! k in 0..=n+2 ∪ {63, 64, 65, usize::MAX}, all count masks c < 2^(n+1) (plus masks with high
//! bits), both types, every assignment against the popcount definition. Run in both build
//! profiles (the shift in `equals` is profile-sensitive).

use super::common::*;
use super::hist;
use crate::api::Tab;
use crate::engine::json::J;
use crate::engine::{child_run, guarded, hash_str, hash_words, Case, Run};
use crate::{for_static, for_type};

fn case_str(run_profile: &str, st: bool, n: usize, init: &str) -> String {
    format!("ty={};n={};init={};prof={}", tyname(st), n, init, run_profile)
}

pub fn check_one<L: Tab>(n: usize, init: &str) -> Result<u64, (String, String)> {
    let n_eff = if init == "default" && !L::STATIC { 0 } else { n };
    let model = match hist::init_model(n_eff, init) {
        Ok(Some(m)) => m,
        Ok(None) => return Err(("harness".into(), format!("no model for {}", init))),
        Err(e) => return Err(("harness".into(), e)),
    };
    let r = guarded(|| hist::init_subject::<L>(n, init));
    match r {
        Err(p) => fail(format!("{} returns {}", init, show_tt(&model)), p),
        Ok(Err(e)) => Err(("harness".into(), e)),
        Ok(Ok(None)) => Err(("harness".into(), "parser init in C11".into())),
        Ok(Ok(Some(l))) => {
            same_function(init, &l, &model)?;
            Ok(hash_words(l.t_blocks()))
        }
    }
}

/// One tour: every constructor at every ordered pair of sizes consecutively.
pub fn tour(which: &str, k: usize, _thorough: bool) -> Result<super::xsize::Tour, String> {
    if which != "sizes" {
        return Err("no such tour".into());
    }
    let sizes: Vec<usize> = (0..=12).collect();
    let a0 = *sizes.get(k).ok_or("no such tour")?;
    let mut t = super::xsize::Tour::new(format!("sizes:{}", k));
    for s in super::xsize::size_pairs_from(a0, &sizes) {
        let mut list: Vec<String> = vec!["zero".into(), "one".into(), "parity".into(), "majority".into(), "default".into()];
        for kk in [0usize, 1, s / 2, s, s + 1, usize::MAX] {
            list.push(format!("thr:{}", kk));
            list.push(format!("eq:{}", kk));
        }
        for c in [0usize, 1, 0b101, (1usize << (s + 1)) - 1, (1usize << s) | 1, usize::MAX, 0x5555_5555_5555_5555] {
            list.push(format!("sym:{}", c));
        }
        if s > 0 {
            list.push("var:0".into());
            list.push(format!("var:{}", s - 1));
        }
        list.sort();
        list.dedup();
        for init in list {
            for st in [false, true] {
                let i2 = init.clone();
                t.push(format!("{} {} n={}", if st { "LutN" } else { "Lut" }, i2, s), move || {
                    fn go<L: Tab>(n: usize, init: &str) -> Verdict {
                        check_one::<L>(n, init).map(|_| ())
                    }
                    for_type!(st, s, go(s, &i2))
                });
            }
        }
    }
    Ok(t)
}

pub fn replay(case: &Case) -> Result<Verdict, String> {
    if case.opt("kind") == Some("tour") {
        return super::xsize::replay(case, &tour);
    }
    let st = parse_ty(case.get("ty")?)?;
    let n = case.usize("n")?;
    let init = case.get("init")?.to_string();
    fn go<L: Tab>(n: usize, init: &str) -> Verdict {
        check_one::<L>(n, init).map(|_| ())
    }
    Ok(for_type!(st, n, go(n, &init)))
}

fn inits(n: usize, full_sym: bool) -> Vec<String> {
    let mut v: Vec<String> = vec!["zero".into(), "one".into(), "parity".into(), "majority".into(), "default".into()];
    for i in 0..n {
        v.push(format!("var:{}", i));
    }
    for k in (0..=n + 2).chain([31usize, 32, 33, 63, 64, 65, 66, 127, 128, 255, 256, 1 << 16, (1 << 16) + 1, 1 << 31, (1 << 32) - 1, 1 << 32, (1 << 32) + 1, (1 << 32) + 2, (1usize << 32) + n, 1 << 33, (1 << 33) + 1, (1usize << 40) + 64, 1 << 63, (1usize << 63) + 1, usize::MAX - 64, usize::MAX - 1, usize::MAX]) {
        v.push(format!("thr:{}", k));
        v.push(format!("eq:{}", k));
    }
    if full_sym {
        for c in 0..(1usize << (n + 1)) {
            v.push(format!("sym:{}", c));
            if c % 5 == 0 {
                v.push(format!("sym:{}", c | (1usize << 63)));
                v.push(format!("sym:{}", c | (!0usize << (n + 1))));
            }
        }
    } else {
        let top = (1usize << (n + 1)) - 1;
        let mut cs = vec![0usize, 1, 2, 3, top, top - 1, top / 3, top / 3 * 2, 1 << n, 1 << (n / 2), !0usize, 1usize << 63, 0x5555_5555_5555_5555, 0xaaaa_aaaa_aaaa_aaaa];
        for k in 0..=n {
            cs.push(1 << k);
            cs.push(top ^ (1 << k));
            cs.push((1 << k) | (1usize << 63));
        }
        cs.sort();
        cs.dedup();
        for c in cs {
            v.push(format!("sym:{}", c));
        }
    }
    v
}

fn explore<L: Tab>(run: &Run, st: bool, n: usize) {
    let full = true;
    let list = inits(n, full);
    let total = list.len() as u64;
    let prof = run.profile;
    run.section(
        &format!("CONSTRUCTORS n={} {} ({} profile): zero/one/nth_var/parity/majority/threshold/equals/symmetric/default", n, L::tname(n), prof),
        full,
        if full { "complete: the whole stated argument domain (all i, all k of the stated set, all count masks c < 2^(n+1) plus high-bit variants), all assignments" } else { "all i, all k of the stated set, a mask alphabet for symmetric" },
        total,
        16,
        |r, l| {
            for k in r {
                let init = &list[k as usize];
                l.states += 1;
                l.transitions += 1;
                l.validated += 1;
                match check_one::<L>(n, init) {
                    Ok(h) => {
                        l.digest ^= crate::engine::mix3(hash_str(init), n as u64, h);
                        l.nontrivial += 1;
                    }
                    Err(v) => {
                        let head = init.split(':').next().unwrap_or("");
                        let arg: usize = init.split(':').nth(1).and_then(|x| x.parse().ok()).unwrap_or(0);
                        let sig = if head == "eq" && arg >= 64 { "C11/equals/k>=64".to_string() } else { format!("C11/{}/{}", if st { "LutN" } else { "Lut" }, head) };
                        let key = format!("{:02}|{}|{}|{}", n, tyname(st), prof, init);
                        l.violation(key, &sig, case_str(prof, st, n, init), v.0, v.1);
                    }
                }
                if k == total / 2 {
                    l.sample(J::s(case_str(prof, st, n, init)));
                }
            }
        },
    );
}

pub fn explore_all(run: &Run) {
    fn ex<L: Tab>(run: &Run, st: bool, n: usize) {
        explore::<L>(run, st, n)
    }
    for n in 0..=14usize {
        ex::<volute::Lut>(run, false, n);
        if n <= 12 {
            for_static!(n, ex(run, true, n));
        }
    }
    super::xsize::run_tours(run, "C11", "sizes (every named constructor per size, every ordered pair of sizes 0..=12 consecutively)", "constants, parity, majority, default, threshold/equals with k in {0,1,n/2,n,n+1,usize::MAX}, 7 count masks, first and last projection; both types; results must not depend on what was built before on the thread", 13, &|k| tour("sizes", k, false).unwrap());
}

/// Beyond the sizes of the stated quantifier: a few constructor calls on large dynamic tables
/// (the statement itself is not bounded in n; kernels index tables by the popcount of the word index).
fn large_sizes(run: &Run) {
    let prof = run.profile;
    let sizes: Vec<usize> = if run.thorough() { vec![15, 16, 17, 18, 19, 20, 21, 22, 23, 24] } else { vec![15, 16, 18, 20, 22] };
    let mut cases: Vec<(usize, String)> = Vec::new();
    for n in sizes {
        for init in ["parity".to_string(), "majority".to_string(), format!("eq:{}", n / 2), format!("eq:{}", n), format!("thr:{}", n - 1), format!("sym:{}", 0x2d2d_2d2dusize & ((1usize << (n + 1)) - 1)), format!("var:{}", n - 1), "one".to_string()] {
            cases.push((n, init));
        }
    }
    let total = cases.len() as u64;
    run.section(&format!("CONSTRUCTORS large dynamic tables n=15..24 ({} profile): parity/majority/equals/threshold/symmetric/nth_var/one", prof), false, "a handful of argument tuples per size, every assignment compared with the popcount definition", total, 1, |r, l| {
        for k in r {
            let (n, init) = &cases[k as usize];
            l.states += 1;
            l.transitions += 1;
            l.validated += 1;
            match check_one::<volute::Lut>(*n, init) {
                Ok(h) => {
                    l.nontrivial += 1;
                    l.digest ^= crate::engine::mix3(hash_str(init), *n as u64, h);
                }
                Err(v) => l.violation(format!("{:02}|D|{}|{}", n, prof, init), "C11/Lut/large-n", case_str(prof, false, *n, init), v.0, v.1),
            }
        }
    });
}

pub fn run(run: &Run) {
    run.set_rule("state = one constructor call with concrete arguments (per type, per build profile); transition = the call; the successor is compared on every assignment with the popcount definition; every call is counted non-trivial (each is a distinct argument tuple)");
    run.assume("reference model: definitions by popcount of the assignment (props::hist::init_model)");
    explore_all(run);
    large_sizes(run);
    child_run(run, &[]);
}
