//! C19 — random() yields well-formed, non-degenerate, call-independent functions.
//!
//! Two parts:
//!  * ENV exploration (binary lsx-rng, volute built against the scripted rand shim): the
//!    environment is the answer stream of the generator; constant streams with a bounded
//!    number of deviations at every answer index are enumerated (this is what the
//!    model-checking claim rests on; merged here as a child run);
//!  * binding to the real dependency (this binary, real `rand`): the literal statement —
//!    256 draws per size per thread on 1 and 16 free-running threads — with bounds chosen so
//!    that a fair generator fails with probability < 2^-200. Statistical by the property's own
//!    wording; reported separately; contributes no digest (its draws are not reproducible).

use super::common::*;
use crate::api::Tab;
use crate::engine::json::J;
use crate::engine::{child_run_with, fmt_words, guarded, Case, Local, Run};
use crate::model::tt::{nbits, nwords, well_formed};
use crate::for_static;

const DRAWS: usize = 256;

/// lower bound on the number of distinct tables among 256 draws of a fair generator
fn distinct_bound(n: usize) -> usize {
    match n {
        0 => 2,
        1 => 3,
        2 => 8,
        _ => 16,
    }
}

fn draws<L: Tab>(n: usize) -> Result<Vec<Vec<u64>>, String> {
    guarded(|| (0..DRAWS).map(|_| L::t_random(n).t_blocks().to_vec()).collect())
}

fn judge(n: usize, tname: &str, thread: usize, ds: &Result<Vec<Vec<u64>>, String>) -> Verdict {
    let ds = match ds {
        Ok(d) => d,
        Err(p) => return fail(format!("{} random draws of {} return", DRAWS, tname), p.clone()),
    };
    let w = nwords(n);
    let mask = if n < 6 { (1u64 << nbits(n)) - 1 } else { !0 };
    let (mut ones, mut zeros) = (vec![0u64; w], vec![0u64; w]);
    for d in ds {
        if !well_formed(n, d) {
            return fail(format!("every draw is well-formed (no bit at a position >= {})", nbits(n)), format!("{}[{}] (thread {})", tname, fmt_words(d), thread));
        }
        for i in 0..w {
            ones[i] |= d[i];
            zeros[i] |= !d[i] & mask;
        }
    }
    for i in 0..w {
        if ones[i] != mask || zeros[i] != mask {
            return fail(format!("over {} draws every assignment receives both values", DRAWS), format!("block {}: never 1 at {:x}, never 0 at {:x} (thread {})", i, !ones[i] & mask, !zeros[i] & mask, thread));
        }
    }
    let distinct: std::collections::BTreeSet<&Vec<u64>> = ds.iter().collect();
    let need = if n >= 8 { DRAWS } else { distinct_bound(n) };
    if distinct.len() < need {
        return fail(format!("draws differ from one another: at least {} distinct tables among {} draws", need, DRAWS), format!("{} distinct (thread {})", distinct.len(), thread));
    }
    Ok(())
}

fn real_part<L: Tab>(run: &Run, st: bool, n: usize) {
    run.section_seq(&format!("REAL rand n={} {}: 256 draws on 1 thread and on each of 16 concurrent threads", n, L::tname(n)), false, "the literal statement with the real dependency; statistical (false-alarm probability < 2^-200 for a fair generator); not part of the digest", |l| {
        let single = draws::<L>(n);
        let multi: Vec<Result<Vec<Vec<u64>>, String>> = std::thread::scope(|sc| {
            let hs: Vec<_> = (0..16).map(|_| sc.spawn(|| draws::<L>(n))).collect();
            hs.into_iter().map(|h| h.join().unwrap_or_else(|_| Err("thread panicked".into()))).collect()
        });
        let mut all = vec![(0usize, single)];
        all.extend(multi.into_iter().enumerate().map(|(i, d)| (i + 1, d)));
        for (th, d) in &all {
            l.states += DRAWS as u64;
            l.transitions += DRAWS as u64;
            l.validated += DRAWS as u64;
            match judge(n, &L::tname(n), *th, d) {
                Ok(()) => l.nontrivial += DRAWS as u64,
                Err(v) => {
                    let sig = if v.0.contains("well-formed") { "C19/random/malformed-table" } else if v.0.contains("both values") { "C19/random/degenerate-position" } else { "C19/random/draws-not-distinct" };
                    l.violation(format!("{:02}|{}|real|{}", n, tyname(st), th), sig, format!("bin=main;kind=real;ty={};n={}", tyname(st), n), v.0, v.1);
                }
            }
        }
        // the k-th draws of two threads are independent: two threads whose sequences agree at
        // many positions share their generator state (thresholds: a fair generator exceeds
        // them with probability < 2^-200 per pair)
        let agree_bound = match n {
            0 => 250,
            1 => 224,
            2 => 128,
            3 => 64,
            _ => 32,
        };
        'pairs: for i in 0..all.len() {
            for j in (i + 1)..all.len() {
                if let (Ok(a), Ok(b)) = (&all[i].1, &all[j].1) {
                    let agree = a.iter().zip(b.iter()).filter(|(x, y)| x == y).count();
                    if agree >= agree_bound {
                        l.violation(format!("{:02}|{}|real|threads", n, tyname(st)), "C19/random/threads-draw-the-same-sequence", format!("bin=main;kind=real;ty={};n={}", tyname(st), n), format!("the sequences of two threads agree at fewer than {} of {} positions (independent draws)", agree_bound, DRAWS), format!("threads {} and {} drew the same table at {} of {} positions", all[i].0, all[j].0, agree, DRAWS));
                        break 'pairs;
                    }
                }
            }
        }
        // draws of different threads differ from one another as well (n >= 8: all 17 x 256 distinct)
        if n >= 8 {
            let mut set = std::collections::BTreeSet::new();
            let mut total = 0;
            for (_, d) in &all {
                if let Ok(d) = d {
                    for t in d {
                        set.insert(t.clone());
                        total += 1;
                    }
                }
            }
            if set.len() != total {
                l.violation(format!("{:02}|{}|real|cross", n, tyname(st)), "C19/random/draws-not-distinct", format!("bin=main;kind=real;ty={};n={}", tyname(st), n), format!("{} draws across 17 threads pairwise distinct", total), format!("{} distinct", set.len()));
            }
        }
    });
}

/// Draws of different sizes interleaved on ONE fresh thread: 256 rounds, each drawing every
/// size 0..=9 once (ascending, descending and rotated orders alternate); the 256 draws
/// collected per size are judged like any other 256 draws.
fn mixed_sizes(st: bool) -> Vec<(usize, Verdict)> {
    fn one<L: Tab>(n: usize) -> Result<Vec<u64>, String> {
        guarded(|| L::t_random(n).t_blocks().to_vec())
    }
    std::thread::scope(|sc| {
        sc.spawn(move || {
            let top = 9usize;
            let mut per: Vec<Result<Vec<Vec<u64>>, String>> = (0..=top).map(|_| Ok(Vec::new())).collect();
            for r in 0..DRAWS {
                let order: Vec<usize> = match r % 4 {
                    0 => (0..=top).collect(),
                    1 => (0..=top).rev().collect(),
                    2 => (0..=top).map(|k| (k + r / 4) % (top + 1)).collect(),
                    _ => (0..=top).map(|k| (k * 3 + r / 4) % (top + 1)).collect(),
                };
                for n in order {
                    let d = if st { for_static!(n, one(n)) } else { one::<volute::Lut>(n) };
                    match (d, &mut per[n]) {
                        (Ok(x), Ok(v)) => v.push(x),
                        (Err(p), slot) => *slot = Err(p),
                        _ => {}
                    }
                }
            }
            per.iter().enumerate().map(|(n, d)| (n, judge(n, &if st { format!("Lut{}", n) } else { "Lut".to_string() }, 0, d))).collect()
        })
        .join()
        .unwrap_or_else(|_| vec![(0, Err(("harness".to_string(), "mixed-size thread panicked".to_string())))])
    })
}

pub fn replay(case: &Case) -> Result<Verdict, String> {
    if case.opt("bin") == Some("rng") {
        return Err("ENV cases are replayed by lsx-rng (use ./check replay)".into());
    }
    let st = parse_ty(case.get("ty")?)?;
    let n = case.usize("n")?;
    if case.get("kind")? == "mixed" {
        return Ok(mixed_sizes(st).into_iter().find(|(k, v)| *k == n && v.is_err()).map(|(_, v)| v).unwrap_or(Ok(())));
    }
    fn go<L: Tab>(n: usize) -> Verdict {
        let d = draws::<L>(n);
        judge(n, &L::tname(n), 0, &d)
    }
    Ok(crate::for_type!(st, n, go(n)))
}

pub fn run(run: &Run) {
    run.set_rule("ENV part: state = an answer stream of the generator (constant base with <= 1 (2 in thorough) deviations at every answer index, plus 32 irregular streams), transition = two consecutive random() calls; non-trivial = a stream with a deviation or an irregular stream. REAL part: state = one draw with the real rand crate (counted, not digested)");
    run.assume("ENV part: volute is built against shim/rand (the scripted stand-in for rand 0.8's thread_rng()/RngCore); the REAL part binds the shim's conclusions to the real dependency");
    run.assume("no schedule enumeration: fill_random touches only its own table and a thread-local generator, there is no synchronisation operation for a controlled scheduler to permute");
    fn rp<L: Tab>(run: &Run, st: bool, n: usize) {
        real_part::<L>(run, st, n)
    }
    for n in 0..=12usize {
        rp::<volute::Lut>(run, false, n);
        for_static!(n, rp(run, true, n));
    }
    for n in 13..=14usize {
        rp::<volute::Lut>(run, false, n);
    }
    for st in [false, true] {
        run.section_seq(&format!("REAL rand mixed sizes on one fresh thread ({}): 256 rounds over sizes 0..=9 in alternating orders", if st { "LutN" } else { "Lut" }), false, "draws of different sizes interleaved on one thread; the 256 draws of each size judged as above; statistical, not part of the digest", |l| {
            for (n, v) in mixed_sizes(st) {
                l.states += DRAWS as u64;
                l.transitions += DRAWS as u64;
                l.validated += DRAWS as u64;
                match v {
                    Ok(()) => l.nontrivial += DRAWS as u64,
                    Err(v) => {
                        let sig = if v.0.contains("well-formed") { "C19/random/malformed-table" } else if v.0.contains("both values") { "C19/random/degenerate-position" } else { "C19/random/draws-not-distinct" };
                        l.violation(format!("{:02}|{}|real|mixed", n, tyname(st)), sig, format!("bin=main;kind=mixed;ty={};n={}", tyname(st), n), format!("[sizes interleaved on one thread] {}", v.0), v.1);
                    }
                }
            }
        });
    }
    let tier = run.tier.name().to_string();
    child_run_with(run, "LSX_RNG", "rng-shim", &["run", &tier], &[]);
    run.extra("real_rand_part", J::s("statistical binding run: 256 draws x 17 threads x 13 sizes x 2 types; excluded from the determinism digest"));
    let _ = Local::default();
}
