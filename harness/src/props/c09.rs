//! C09 — text forms are exact and fixed-width; parsing accepts exactly well-formed input.
//!
//! Printing: state = table; transitions = to_hex_string, to_bin_string, {}, {:x}, {:b}; oracle
//! = digits rendered from the function most-significant first (model::tt hex/bin).
//! Parsing: state = a string; transition = from_hex_string under catch_unwind; oracle =
//! Ok(t) iff exact width, all hex digits, value fits — then t is that function and
//! well-formed; upper-case may be accepted (same meaning) or rejected; never a panic.

use super::common::*;
use crate::api::Tab;
use crate::engine::json::J;
use crate::engine::{fmt_words, guarded, hash_str, hash_words, Case, Local, Run};
use crate::model::alpha;
use crate::model::tt::{nbits, TT};
use crate::{for_static, for_type};
use volute::Lut;

fn esc(s: &str) -> String {
    // case strings use ';' and '=' as separators: encode the text as hex bytes
    s.bytes().map(|b| format!("{:02x}", b)).collect()
}

fn unesc(s: &str) -> Result<String, String> {
    let b: Result<Vec<u8>, _> = (0..s.len() / 2).map(|i| u8::from_str_radix(&s[2 * i..2 * i + 2], 16)).collect();
    String::from_utf8(b.map_err(|e| e.to_string())?).map_err(|e| e.to_string())
}

fn print_one<L: Tab>(t: &TT) -> Verdict {
    let n = t.n;
    let (hex, bin) = (t.hex(), t.bin());
    let r = guarded(|| {
        let l: L = mk_tt(t);
        (l.t_hex(), l.t_bin(), l.t_fmt_display(), l.t_fmt_lowerhex(), l.t_fmt_binary())
    });
    match r {
        Err(p) => fail("printing returns", p),
        Ok((h, b, d, x, bb)) => {
            if h != hex {
                return fail(format!("to_hex_string = {}", hex), h);
            }
            if b != bin {
                return fail(format!("to_bin_string = {}", bin), b);
            }
            let wd = format!("Lut{}({})", n, hex);
            if d != wd || x != wd {
                return fail(format!("Display and LowerHex = {}", wd), format!("{} / {}", d, x));
            }
            let wb = format!("Lut{}({})", n, bin);
            if bb != wb {
                return fail(format!("Binary = {}", wb), bb);
            }
            // round trip
            let back = guarded(|| L::t_from_hex(n, &h));
            match back {
                Err(p) => fail("from_hex_string(to_hex_string(t)) returns t", p),
                Ok(Err(())) => fail("from_hex_string(to_hex_string(t)) = Ok(t)", "Err"),
                Ok(Ok(l)) => same_function("from_hex_string(to_hex_string(t))", &l, t),
            }
        }
    }
}

/// Outcome class of one parse, for the outcome histogram.
fn parse_one<L: Tab>(n: usize, s: &str) -> Result<&'static str, (String, String)> {
    let model = TT::parse_hex(n, s);
    let has_upper = s.chars().any(|c| c.is_ascii_uppercase());
    let r = guarded(|| L::t_from_hex(n, s));
    match r {
        Err(p) => fail(format!("from_hex_string({:?}) returns {} without panicking", s, if model.is_some() { "Ok" } else { "Err" }), p),
        Ok(Ok(l)) => match &model {
            None => {
                let why = if s.chars().any(|c| !c.is_ascii_hexdigit()) { "it contains a non-hex character" } else if s.chars().count() != std::cmp::max(1, nbits(n) / 4) { "its length is not the fixed width" } else { "its value does not fit in 2^n bits" };
                fail(format!("from_hex_string({:?}) = Err ({})", s, why), format!("Ok({})", show(&l)))
            }
            Some(m) => {
                same_function(&format!("from_hex_string({:?})", s), &l, m)?;
                Ok(if has_upper { "ok-upper" } else { "ok" })
            }
        },
        Ok(Err(())) => match &model {
            None => Ok("err"),
            Some(m) => {
                if has_upper {
                    Ok("err-upper")
                } else {
                    fail(format!("from_hex_string({:?}) = Ok({})", s, show_tt(m)), "Err")
                }
            }
        },
    }
}

/// a `fmt::Write` sink that fails once `cap` bytes have been written
struct Limited {
    buf: String,
    cap: usize,
}

impl std::fmt::Write for Limited {
    fn write_str(&mut self, s: &str) -> std::fmt::Result {
        if self.buf.len() + s.len() > self.cap {
            return Err(std::fmt::Error);
        }
        self.buf.push_str(s);
        Ok(())
    }
}

/// Display / LowerHex / Binary written into sinks that fail after k bytes (every k), each
/// failure followed by an ordinary print of the same table and of its complement.
fn sink_one<L: Tab + std::fmt::Display + std::fmt::LowerHex + std::fmt::Binary>(t: &TT) -> Verdict {
    use std::fmt::Write as _;
    let u = t.not();
    let r = guarded(|| {
        let (a, b): (L, L) = (mk_tt(t), mk_tt(&u));
        let len = format!("{:b}", a).len();
        let caps: Vec<usize> = if len <= 80 { (0..len).collect() } else { vec![0, 1, 3, 4, 5, 15, 16, 17, 20, 21, len / 2, len - 2, len - 1] };
        for cap in caps {
            for mode in 0..3 {
                // the failing write itself may return an error or even panic: only what is
                // printed afterwards is judged
                let _ = guarded(|| {
                    let mut sink = Limited { buf: String::new(), cap };
                    let _ = match mode {
                        0 => write!(sink, "{}", a),
                        1 => write!(sink, "{:x}", a),
                        _ => write!(sink, "{:b}", a),
                    };
                });
                if let Some(bad) = [(&a, t), (&b, &u)].iter().find_map(|(l, m)| {
                    let texts = (l.t_hex(), l.t_bin(), format!("{}", l), format!("{:b}", l));
                    let want = (m.hex(), m.bin(), format!("Lut{}({})", m.n, m.hex()), format!("Lut{}({})", m.n, m.bin()));
                    if texts != want {
                        Some((format!("{:?}", want), format!("{:?}", texts)))
                    } else {
                        None
                    }
                }) {
                    return fail(format!("after a write (mode {}) into a sink failing after {} bytes, printing gives {}", mode, cap, bad.0), bad.1);
                }
            }
        }
        Ok(())
    });
    match r {
        Ok(v) => v,
        Err(p) => fail("printing after a failed write returns", p),
    }
}

/// One tour per first size: printing and parsing at every ordered pair of sizes consecutively.
pub fn tour(which: &str, k: usize, _thorough: bool) -> Result<super::xsize::Tour, String> {
    if which != "sizes" {
        return Err("no such tour".into());
    }
    let sizes: Vec<usize> = (0..=11).collect();
    let a0 = *sizes.get(k).ok_or("no such tour")?;
    let mut t = super::xsize::Tour::new(format!("sizes:{}", k));
    for s in super::xsize::size_pairs_from(a0, &sizes) {
        let pats = alpha::word_patterns(s, 0, 0);
        let f = pats[pats.len() - 1].clone();
        let width = std::cmp::max(1, nbits(s) / 4);
        let strings: Vec<String> = vec![f.hex(), f.not().hex(), "f".repeat(width), "0".repeat(width + 1), "g".repeat(width), String::new()];
        for st in [false, true] {
            let f2 = f.clone();
            t.push(format!("{} print n={}", if st { "LutN" } else { "Lut" }, s), move || {
                fn go<L: Tab>(t: &TT) -> Verdict {
                    print_one::<L>(t)
                }
                for_type!(st, f2.n, go(&f2))
            });
            for sx in &strings {
                let s2 = sx.clone();
                t.push(format!("{} parse n={} {:?}", if st { "LutN" } else { "Lut" }, s, if s2.len() > 20 { &s2[..20] } else { &s2[..] }), move || {
                    fn go<L: Tab>(n: usize, s: &str) -> Verdict {
                        parse_one::<L>(n, s).map(|_| ())
                    }
                    for_type!(st, s, go(s, &s2))
                });
            }
        }
    }
    Ok(t)
}

pub fn replay(case: &Case) -> Result<Verdict, String> {
    if case.opt("kind") == Some("tour") {
        return super::xsize::replay(case, &tour);
    }
    if case.opt("kind") == Some("sink") {
        let n = case.usize("n")?;
        let t = TT::from_words(n, &case.words("t")?).ok_or("t malformed")?;
        return Ok(sink_dispatch(parse_ty(case.get("ty")?)?, &t));
    }
    let st = parse_ty(case.get("ty")?)?;
    let n = case.usize("n")?;
    match case.get("kind")? {
        "print" => {
            let t = TT::from_words(n, &case.words("t")?).ok_or("t malformed")?;
            fn go<L: Tab>(t: &TT) -> Verdict {
                print_one::<L>(t)
            }
            Ok(for_type!(st, n, go(&t)))
        }
        "flags" => {
            let t = TT::from_words(n, &case.words("t")?).ok_or("t malformed")?;
            Ok(flagged_one(&t))
        }
        "parse" => {
            let s = unesc(case.get("s")?)?;
            fn go<L: Tab>(n: usize, s: &str) -> Verdict {
                parse_one::<L>(n, s).map(|_| ())
            }
            Ok(for_type!(st, n, go(n, &s)))
        }
        k => Err(format!("unknown kind {}", k)),
    }
}

fn parse_step<L: Tab>(l: &mut Local, st: bool, n: usize, s: &str) {
    l.states += 1;
    l.transitions += 1;
    l.validated += 1;
    match parse_one::<L>(n, s) {
        Ok(o) => {
            l.digest ^= crate::engine::mix3(hash_str(s), n as u64, o.len() as u64);
            l.nontrivial += (o != "err") as u64;
            l.outcome(o);
        }
        Err(v) => {
            let class = if v.1.starts_with("panic") {
                "panic"
            } else if s.contains('+') && v.1.starts_with("Ok") {
                "accepts-sign"
            } else if n <= 1 && v.1.starts_with("Ok") {
                "n<=1:over-wide-digit"
            } else if v.1.starts_with("Ok") {
                "accepts-ill-formed"
            } else {
                "rejects-well-formed"
            };
            l.outcome(class);
            let key = format!("{:02}|{}|parse|{:04}|{}", n, tyname(st), s.len(), esc(s));
            l.violation(key, &format!("C09/from_hex_string/{}", class), format!("ty={};kind=parse;n={};s={};text={:?}", tyname(st), n, esc(s), s.replace(';', "?").replace('=', "?")), v.0, v.1);
        }
    }
}

const SIGMA: [&str; 30] = ["0", "1", "2", "7", "8", "9", "a", "b", "e", "f", "A", "B", "F", "g", "G", "x", "+", "-", " ", "é", "€", "_", ".", "\t", "\n", "z", "3", "c", "d", "D"];
const SIGMA13: [&str; 13] = ["0", "1", "9", "a", "f", "A", "F", "g", "+", "-", " ", "x", "é"];

fn all_strings<L: Tab>(run: &Run, st: bool, n: usize, sigma: &'static [&'static str], maxlen: usize) {
    let k = sigma.len() as u64;
    let mut total = 0u64;
    let mut offs = Vec::new();
    for len in 0..=maxlen {
        offs.push(total);
        total += k.pow(len as u32);
    }
    run.section(
        &format!("PARSE all strings of length 0..={} over {} symbols, n={} {}", maxlen, k, n, L::tname(n)),
        true,
        &format!("complete over the alphabet {:?} (multi-byte symbols included) up to length width+2", sigma),
        total,
        4096,
        |r, l| {
            for idx in r {
                let len = offs.iter().rposition(|o| *o <= idx).unwrap();
                let mut x = idx - offs[len];
                let mut s = String::new();
                for _ in 0..len {
                    s.push_str(sigma[(x % k) as usize]);
                    x /= k;
                }
                parse_step::<L>(l, st, n, &s);
                if idx == total / 2 {
                    l.sample(J::s(format!("ty={};kind=parse;n={};text={:?}", tyname(st), n, s)));
                }
            }
        },
    );
}

/// Every string of 1 and 2 characters over U+0000..U+00FF (all ASCII incl. control
/// characters, and the Latin-1 range as 2-byte UTF-8) — the whole small-width string space.
fn all_bytes<L: Tab>(run: &Run, st: bool, n: usize) {
    let width = std::cmp::max(1, nbits(n) / 4);
    let total: u64 = 256 + 256 * 256;
    run.section(&format!("PARSE all 1- and 2-character strings over U+0000..U+00FF, n={} {} (width {})", n, L::tname(n), width), true, "complete over the 256 code points (control characters included) for lengths 1 and 2", total, 2048, |r, l| {
        for idx in r {
            let s: String = if idx < 256 { char::from_u32(idx as u32).unwrap().to_string() } else { [char::from_u32(((idx - 256) / 256) as u32).unwrap(), char::from_u32(((idx - 256) % 256) as u32).unwrap()].iter().collect() };
            parse_step::<L>(l, st, n, &s);
        }
    });
}

/// Format flags must not change what is printed (padding aside): `{:12}`, `{:.3}`, `{:>20}`, `{:#x}`, `{:08b}` ...
fn flagged_formats(l: &Lut) -> Vec<(String, String)> {
    vec![
        ("{:12}".into(), format!("{:12}", l)),
        ("{:.3}".into(), format!("{:.3}", l)),
        ("{:>20}".into(), format!("{:>20}", l)),
        ("{:<6.2}".into(), format!("{:<6.2}", l)),
        ("{:#x}".into(), format!("{:#x}", l)),
        ("{:.1x}".into(), format!("{:.1x}", l)),
        ("{:08b}".into(), format!("{:08b}", l)),
        ("{:.2b}".into(), format!("{:.2b}", l)),
    ]
}

fn flagged_one(t: &TT) -> Verdict {
    let (whex, wbin) = (format!("Lut{}({})", t.n, t.hex()), format!("Lut{}({})", t.n, t.bin()));
    let r = guarded(|| {
        let l = Lut::from_blocks(t.n, &t.w);
        let mut out = flagged_formats(&l);
        fn st<const N: usize, const T: usize>(w: &[u64]) -> Vec<(String, String)> {
            let l = volute::StaticLut::<N, T>::from_blocks(w);
            vec![("static {:12}".into(), format!("{:12}", l)), ("static {:.3}".into(), format!("{:.3}", l)), ("static {:.2b}".into(), format!("{:.2b}", l)), ("static {:>9x}".into(), format!("{:>9x}", l))]
        }
        match t.n {
            3 => out.extend(st::<3, 1>(&t.w)),
            5 => out.extend(st::<5, 1>(&t.w)),
            7 => out.extend(st::<7, 2>(&t.w)),
            _ => {}
        }
        out
    });
    match r {
        Err(p) => fail("formatting with flags returns", p),
        Ok(v) => {
            for (spec, text) in v {
                let want = if spec.contains('b') { &wbin } else { &whex };
                // padding is tolerated, truncation or any other alteration is not
                if text.trim() != want {
                    return fail(format!("format!(\"{}\") prints {} (fill characters aside)", spec, want), format!("{:?}", text));
                }
            }
            Ok(())
        }
    }
}

fn print_sweep<L: Tab>(run: &Run, st: bool, n: usize) {
    let size = 1u64 << nbits(n);
    run.section(&format!("PRINT all tables n={} {}: to_hex_string/to_bin_string/Display/LowerHex/Binary + parse(print)", n, L::tname(n)), true, "complete", size, 256, |r, l| {
        for x in r {
            let t = TT::from_u64(n, x);
            l.states += 1;
            l.nontrivial += 1;
            l.transitions += 6;
            l.validated += 6;
            match print_one::<L>(&t) {
                Ok(()) => l.digest ^= crate::engine::mix3(x, n as u64, 6),
                Err(v) => {
                    let key = format!("{:02}|{}|print|{}", n, tyname(st), fmt_words(&t.w));
                    l.violation(key, &format!("C09/{}/print", if st { "LutN" } else { "Lut" }), format!("ty={};kind=print;n={};t={}", tyname(st), n, fmt_words(&t.w)), v.0, v.1);
                }
            }
            if x == size / 3 {
                l.sample(J::s(format!("ty={};kind=print;n={};t={}", tyname(st), n, fmt_words(&t.w))));
            }
        }
    });
}

fn print_alphabet<L: Tab>(run: &Run, st: bool, n: usize) {
    let fam = alpha::family_capped(n, run.seed, if run.thorough() { 2 } else { 1 }, if run.thorough() { 40000 } else { 6000 });
    run.section(&format!("PRINT F({}) {}: all text forms + parse(print)", n, L::tname(n)), false, &format!("|F(n)|={}", fam.len()), fam.len() as u64, 16, |r, l| {
        for k in r {
            let t = &fam[k as usize];
            l.states += 1;
            l.nontrivial += 1;
            l.transitions += 6;
            l.validated += 6;
            match print_one::<L>(t) {
                Ok(()) => l.digest ^= crate::engine::mix3(hash_words(&t.w), n as u64, 6),
                Err(v) => {
                    let key = format!("{:02}|{}|print|{}", n, tyname(st), fmt_words(&t.w));
                    l.violation(key, &format!("C09/{}/print", if st { "LutN" } else { "Lut" }), format!("ty={};kind=print;n={};t={}", tyname(st), n, fmt_words(&t.w)), v.0, v.1);
                }
            }
        }
    });
}

/// Deviation-bounded strings: printed tables with one edit (two on a subset in thorough).
fn edits<L: Tab>(run: &Run, st: bool, n: usize) {
    let nbase = if run.thorough() { 24 } else if n <= 8 { 12 } else { 5 };
    let mut bases: Vec<String> = Vec::new();
    let fam = alpha::family_capped(n, run.seed, 0, 100000);
    let stride = std::cmp::max(1, fam.len() / nbase);
    for t in fam.iter().step_by(stride).take(nbase) {
        bases.push(t.hex());
    }
    bases.push(TT::zero(n).not().hex());
    bases.push(alpha::word_patterns(n, run.seed, 0).last().unwrap().hex());
    bases.sort();
    bases.dedup();
    let width = bases[0].len();
    let total = bases.len() as u64 * (width as u64 + 1);
    run.section(
        &format!("PARSE one-edit deviations of printed tables n={} {} (width {})", n, L::tname(n), width),
        false,
        &format!("{} printed base tables; at every byte position: substitute each of {} symbols, delete, insert each symbol, overwrite 2 / 3 bytes by a multi-byte char (so that a char straddles every 16-digit chunk boundary){}", bases.len(), SIGMA.len(), if run.thorough() { "; two substitutions on boundary positions" } else { "" }),
        total,
        8,
        |r, l| {
            for idx in r {
                let base = &bases[(idx / (width as u64 + 1)) as usize];
                let pos = (idx % (width as u64 + 1)) as usize;
                let bytes = base.as_bytes();
                if pos < width {
                    for sym in SIGMA {
                        // substitution of one byte by a symbol (possibly multi-byte: length changes)
                        let s = format!("{}{}{}", &base[..pos], sym, &base[pos + 1..]);
                        parse_step::<L>(l, st, n, &s);
                    }
                    if pos % 16 == 0 || pos % 16 == 15 || pos + 1 == width {
                        // every other single-byte character at the chunk boundaries
                        for b in 0u8..128 {
                            if !(b as char).is_ascii_hexdigit() {
                                let s = format!("{}{}{}", &base[..pos], b as char, &base[pos + 1..]);
                                parse_step::<L>(l, st, n, &s);
                            }
                        }
                    }
                    // deletion
                    let s = format!("{}{}", &base[..pos], &base[pos + 1..]);
                    parse_step::<L>(l, st, n, &s);
                    // overwrite 2 bytes by a 2-byte char, 3 bytes by a 3-byte char: byte length kept
                    if pos + 2 <= width {
                        let s = format!("{}é{}", &base[..pos], &base[pos + 2..]);
                        parse_step::<L>(l, st, n, &s);
                    }
                    if pos + 3 <= width {
                        let s = format!("{}€{}", &base[..pos], &base[pos + 3..]);
                        parse_step::<L>(l, st, n, &s);
                    }
                    if pos + 4 <= width {
                        let s = format!("{}😀{}", &base[..pos], &base[pos + 4..]);
                        parse_step::<L>(l, st, n, &s);
                    }
                    // case flip of a letter digit
                    if bytes[pos].is_ascii_lowercase() {
                        let s = format!("{}{}{}", &base[..pos], (bytes[pos] as char).to_ascii_uppercase(), &base[pos + 1..]);
                        parse_step::<L>(l, st, n, &s);
                    }
                    if run.thorough() && (pos % 16 == 0 || pos % 16 == 15) {
                        for q in [0usize, 15, 16, width / 2, width - 1] {
                            if q < width && q != pos {
                                for (s1, s2) in [("+", "-"), ("g", "0"), ("F", "f"), (" ", "+")] {
                                    let mut b: Vec<String> = base.chars().map(|c| c.to_string()).collect();
                                    b[pos] = s1.to_string();
                                    b[q] = s2.to_string();
                                    parse_step::<L>(l, st, n, &b.concat());
                                }
                            }
                        }
                    }
                }
                // insertion before pos (pos == width: append)
                for sym in SIGMA {
                    let s = format!("{}{}{}", &base[..pos], sym, &base[pos..]);
                    parse_step::<L>(l, st, n, &s);
                }
                if idx == total / 2 {
                    l.sample(J::s(format!("ty={};kind=parse;n={};text={:?}", tyname(st), n, format!("{}+{}", &base[..pos.min(width - 1)], &base[(pos + 1).min(width)..]))));
                }
            }
        },
    );
}

fn sink_dispatch(st: bool, t: &TT) -> Verdict {
    if !st {
        return sink_one::<Lut>(t);
    }
    match t.n {
        0 => sink_one::<volute::Lut0>(t),
        1 => sink_one::<volute::Lut1>(t),
        2 => sink_one::<volute::Lut2>(t),
        3 => sink_one::<volute::Lut3>(t),
        4 => sink_one::<volute::Lut4>(t),
        5 => sink_one::<volute::Lut5>(t),
        6 => sink_one::<volute::Lut6>(t),
        7 => sink_one::<volute::Lut7>(t),
        8 => sink_one::<volute::Lut8>(t),
        _ => Ok(()),
    }
}

pub fn run(run: &Run) {
    run.set_rule("printing: state = table, transition = each text form (+ parse of the printed text); parsing: state = string, transition = from_hex_string; non-trivial = a string that is accepted, or whose rejection the model decides by something other than 'no table at all'; outcomes = {ok, ok-upper, err, err-upper}");
    run.assume("reference model: digit-by-digit rendering and parsing of the function (model::tt hex/bin/parse_hex); an upper-case hex digit may be accepted (same meaning) or rejected");
    fn ps<L: Tab>(run: &Run, st: bool, n: usize) {
        print_sweep::<L>(run, st, n)
    }
    fn pa<L: Tab>(run: &Run, st: bool, n: usize) {
        print_alphabet::<L>(run, st, n)
    }
    fn asx<L: Tab>(run: &Run, st: bool, n: usize, big: bool, maxlen: usize) {
        all_strings::<L>(run, st, n, if big { &SIGMA } else { &SIGMA13 }, maxlen)
    }
    fn ed<L: Tab>(run: &Run, st: bool, n: usize) {
        edits::<L>(run, st, n)
    }
    for n in 0..=4usize {
        for st in [false, true] {
            for_type!(st, n, ps(run, st, n));
        }
    }
    for n in 5..=14usize {
        pa::<volute::Lut>(run, false, n);
        if n <= 12 {
            for_static!(n, pa(run, true, n));
        }
    }
    fn ab<L: Tab>(run: &Run, st: bool, n: usize) {
        all_bytes::<L>(run, st, n)
    }
    for n in 0..=3usize {
        for st in [false, true] {
            for_type!(st, n, ab(run, st, n));
        }
    }
    run.section_seq("PRINT with format flags (width, precision, alignment, #, 0) on F(n), n=0..8: the flags do not alter the text", false, "8 flag combinations on Lut, 4 on Lut3/Lut5/Lut7", |l| {
        for n in 0..=8usize {
            for t in alpha::family_capped(n, run.seed, 0, 400) {
                l.states += 1;
                l.transitions += 8;
                l.validated += 8;
                match flagged_one(&t) {
                    Ok(()) => {
                        l.nontrivial += 1;
                        l.digest ^= crate::engine::mix3(hash_words(&t.w), n as u64, 8);
                    }
                    Err(v) => l.violation(format!("{:02}|flags|{}", n, fmt_words(&t.w)), "C09/print/format-flags", format!("ty=D;kind=flags;n={};t={}", n, fmt_words(&t.w)), v.0, v.1),
                }
            }
        }
    });
    for n in 0..=3usize {
        let width = std::cmp::max(1, nbits(n) / 4);
        for st in [false, true] {
            for_type!(st, n, asx(run, st, n, true, width + 2));
        }
    }
    for st in [false, true] {
        for_type!(st, 4, asx(run, st, 4, false, if run.thorough() { 6 } else { 5 }));
    }
    for n in 4..=12usize {
        for st in [false, true] {
            if !run.thorough() && n >= 9 && st && n % 2 == 1 {
                continue;
            }
            for_type!(st, n, ed(run, st, n));
        }
    }
    for n in 13..=14usize {
        if run.thorough() {
            ed::<volute::Lut>(run, false, n);
        }
    }
    run.section_seq("SINKS Display/LowerHex/Binary into sinks failing after k bytes (every k), n=0..=8, both types", false, "two tables per size; every byte count up to the text length (13 counts for long texts); after each failed write the table and its complement are printed again by every route", |l| {
        for n in 0..=8usize {
            let pats = alpha::word_patterns(n, 0, 0);
            for t in [pats[pats.len() - 1].clone(), TT::from_fn(n, |m| alpha::popcount(m) % 2 == 1)] {
                for st in [false, true] {
                    l.states += 1;
                    l.transitions += 1;
                    l.validated += 1;
                    match sink_dispatch(st, &t) {
                        Ok(()) => l.nontrivial += 1,
                        Err(v) => l.violation(format!("{:02}|{}|sink|{}", n, tyname(st), fmt_words(&t.w)), "C09/print/after-failed-write", format!("ty={};kind=sink;n={};t={}", tyname(st), n, fmt_words(&t.w)), v.0, v.1),
                    }
                }
            }
        }
    });
    super::xsize::run_tours(run, "C09", "sizes (printing by every route and parsing 6 strings per size, every ordered pair of sizes 0..=11 consecutively)", "both types; results must not depend on what was printed or parsed before on the thread", 12, &|k| tour("sizes", k, false).unwrap());
}
