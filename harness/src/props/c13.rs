//! C13 — Ecube (XOR term) and Soes (OR of XOR terms) semantics.

use super::common::*;
use crate::engine::json::J;
use crate::engine::{fmt_words, guarded, Case, Local, Run};
use crate::model::cube::EcubeM;
use crate::model::tt::{nbits, TT};
use std::collections::BTreeSet;
use volute::sop::{Ecube, Soes};
use volute::Lut;

pub fn abs_ecube(e: &Ecube) -> EcubeM {
    // the xnor flag is observed through the value on the all-zero assignment
    EcubeM { vars: e.vars().collect(), xnor: e.value(0) }
}

fn mk_ecube(vars: u32, xnor: bool) -> Ecube {
    let v: Vec<usize> = (0..32).filter(|i| (vars >> i) & 1 != 0).collect();
    Ecube::from_vars(&v, xnor)
}

pub fn check_ecube(what: &str, e: &Ecube, m: &EcubeM) -> Verdict {
    let a = abs_ecube(e);
    if a != *m {
        return fail(format!("{}: variables {:?} xnor={}", what, m.vars, m.xnor), format!("{:?}", e));
    }
    let sup: BTreeSet<usize> = m.vars.clone();
    for bg in [0u64, 0xffff_ffff] {
        for asg in crate::model::cube::assignments(&sup, bg) {
            if e.value(asg as usize) != m.value(asg) {
                return fail(format!("{}: value({:#x}) = {}", what, asg, m.value(asg)), format!("{}", e.value(asg as usize)));
            }
        }
    }
    let zero = m.vars.is_empty() && !m.xnor;
    let one = m.vars.is_empty() && m.xnor;
    if e.is_zero() != zero || e.is_one() != one {
        return fail(format!("{}: is_zero={} is_one={}", what, zero, one), format!("{} {}", e.is_zero(), e.is_one()));
    }
    let nl = m.vars.len();
    if e.num_lits() != nl || e.num_gates() != std::cmp::max(nl, 1) - 1 {
        return fail(format!("{}: num_lits={} num_gates={}", what, nl, std::cmp::max(nl, 1) - 1), format!("{} {}", e.num_lits(), e.num_gates()));
    }
    let vs: Vec<usize> = e.vars().collect();
    if vs != m.vars.iter().copied().collect::<Vec<_>>() {
        return fail("vars() in increasing order", format!("{:?}", vs));
    }
    Ok(())
}

fn check_pair(va: u32, xa: bool, vb: u32, xb: bool) -> Verdict {
    let (ma, mb) = (EcubeM::from_mask(va, xa), EcubeM::from_mask(vb, xb));
    let r = guarded(|| {
        let (a, b) = (mk_ecube(va, xa), mk_ecube(vb, xb));
        check_ecube("from_vars", &a, &ma)?;
        let mx = ma.xor(&mb);
        let forms: [Ecube; 4] = [a ^ b, &a ^ b, &a ^ &b, a ^ &b];
        for (k, f) in forms.iter().enumerate() {
            check_ecube(&format!("a ^ b (form {})", k), f, &mx)?;
        }
        let mn = EcubeM { vars: ma.vars.clone(), xnor: !ma.xnor };
        check_ecube("!a", &!a, &mn)?;
        check_ecube("!&a", &!&a, &mn)?;
        // equality is semantic equality
        let sup: BTreeSet<usize> = ma.vars.union(&mb.vars).copied().collect();
        // the (capped) enumeration of the joint support, plus every single-variable assignment:
        // two parities that differ as functions already differ on 0 or on one of those
        let mut asg = crate::model::cube::assignments(&sup, 0);
        asg.extend(sup.iter().map(|v| 1u64 << *v));
        let sem_eq = asg.iter().all(|m| ma.value(*m) == mb.value(*m));
        if (a == b) != sem_eq {
            return fail(format!("a == b is {} (semantic equality)", sem_eq), format!("{}", a == b));
        }
        Ok(())
    });
    match r {
        Ok(v) => v,
        Err(p) => fail("^, !, == return", p),
    }
}

fn check_consts(v: usize) -> Verdict {
    match guarded(|| {
        check_ecube("nth_var", &Ecube::nth_var(v), &EcubeM::from_mask(1 << v, false))?;
        check_ecube("nth_var_inv", &Ecube::nth_var_inv(v), &EcubeM::from_mask(1 << v, true))?;
        check_ecube("one", &Ecube::one(), &EcubeM::from_mask(0, true))?;
        check_ecube("zero", &Ecube::zero(), &EcubeM::from_mask(0, false))
    }) {
        Ok(v) => v,
        Err(p) => fail("constructors return", p),
    }
}

fn check_all(n: usize) -> Verdict {
    match guarded(|| Ecube::all(n).collect::<Vec<Ecube>>()) {
        Err(p) => fail("Ecube::all returns", p),
        Ok(v) => {
            let want = 1usize << (n + 1);
            if v.len() != want {
                return fail(format!("Ecube::all({}) yields 2^(n+1) = {} terms", n, want), format!("{}", v.len()));
            }
            let mut set = BTreeSet::new();
            for e in &v {
                let a = abs_ecube(e);
                if a.vars.iter().any(|x| *x >= n) {
                    return fail(format!("terms over variables 0..{}", n), format!("{:?}", e));
                }
                if !set.insert(a) {
                    return fail("pairwise distinct terms", format!("{:?} twice", e));
                }
            }
            Ok(())
        }
    }
}

fn check_implies_lut(n: usize, t: &TT, vars: u32, xnor: bool) -> Verdict {
    let m = EcubeM::from_mask(vars, xnor);
    let want = (0..nbits(n)).all(|a| !m.value(a as u64) || t.get(a));
    match guarded(|| mk_ecube(vars, xnor).implies_lut(&Lut::from_blocks(n, &t.w))) {
        Err(p) => fail(format!("implies_lut = {}", want), p),
        Ok(g) if g != want => fail(format!("implies_lut = {}", want), format!("{}", g)),
        Ok(_) => Ok(()),
    }
}

// ---------------------------------------------------------------------------------- Soes

fn soes_terms(code: &[u32]) -> Vec<(u32, bool)> {
    code.iter().map(|c| (c >> 1, c & 1 != 0)).collect()
}

fn soes_model(n: usize, terms: &[(u32, bool)]) -> TT {
    TT::from_fn(n, |m| terms.iter().any(|(v, x)| EcubeM::from_mask(*v, *x).value(m as u64)))
}

/// One Soes built from a term list, and its `|` with a second list.
fn check_soes(n: usize, a: &[u32], b: &[u32]) -> Verdict {
    let (ta, tb) = (soes_terms(a), soes_terms(b));
    let (fa, fb) = (soes_model(n, &ta), soes_model(n, &tb));
    let r = guarded(|| {
        let sa = Soes::from_cubes(n, ta.iter().map(|(v, x)| mk_ecube(*v, *x)).collect());
        let sb = Soes::from_cubes(n, tb.iter().map(|(v, x)| mk_ecube(*v, *x)).collect());
        let one = |what: &str, s: &Soes, f: &TT, nterms: usize| -> Verdict {
            if s.num_vars() != n {
                return fail(format!("{}: num_vars = {}", what, n), format!("{}", s.num_vars()));
            }
            for m in 0..nbits(n) {
                if s.value(m) != f.get(m) {
                    return fail(format!("{}: value({}) = {} (OR of the terms)", what, m, f.get(m)), format!("{} for {}", s.value(m), s));
                }
            }
            let l1 = Lut::from(s);
            let l2 = Lut::from(s.clone());
            if l1.num_vars() != n || l1.blocks() != &f.w[..] || l2 != l1 {
                return fail(format!("{}: Lut::from tabulates [{}]", what, fmt_words(&f.w)), format!("{} / {}", l1, l2));
            }
            if s.is_zero() && !f.is_const(false) {
                return fail(format!("{}: is_zero only for the constant-zero function", what), format!("is_zero on {}", s));
            }
            if s.is_one() && !f.is_const(true) {
                return fail(format!("{}: is_one only for the constant-one function", what), format!("is_one on {}", s));
            }
            if s.num_cubes() != nterms || s.cubes().len() != nterms {
                return fail(format!("{}: num_cubes = {}", what, nterms), format!("{}", s.num_cubes()));
            }
            let lits: usize = s.cubes().iter().map(|c| c.vars().count()).sum();
            if s.num_lits() != lits {
                return fail(format!("{}: num_lits = {}", what, lits), format!("{}", s.num_lits()));
            }
            Ok(())
        };
        one("from_cubes(a)", &sa, &fa, ta.len())?;
        let f_or = TT::pointwise(&fa, &fb, |x, y| x || y);
        let forms: [Soes; 4] = [sa.clone() | sb.clone(), &sa | sb.clone(), &sa | &sb, sa.clone() | &sb];
        for (k, s) in forms.iter().enumerate() {
            one(&format!("a | b (form {})", k), s, &f_or, ta.len() + tb.len())?;
        }
        Ok(())
    });
    match r {
        Ok(v) => v,
        Err(p) => fail("Soes operations return", p),
    }
}

fn check_soes_consts(n: usize) -> Verdict {
    match guarded(|| {
        let z = Soes::zero(n);
        let o = Soes::one(n);
        if !z.is_zero() || z.is_one() || !Lut::from(&z).blocks().iter().all(|w| *w == 0) {
            return fail("Soes::zero is the constant zero and is_zero", format!("{}", z));
        }
        if !o.is_one() || o.is_zero() || Lut::from(&o) != Lut::one(n) {
            return fail("Soes::one is the constant one and is_one", format!("{}", o));
        }
        for v in 0..n {
            if Lut::from(&Soes::nth_var(n, v)) != Lut::nth_var(n, v) || Lut::from(&Soes::nth_var_inv(n, v)) != !Lut::nth_var(n, v) {
                return fail(format!("Soes::nth_var({}) / nth_var_inv denote x{} / !x{}", v, v, v), format!("{} / {}", Soes::nth_var(n, v), Soes::nth_var_inv(n, v)));
            }
        }
        Ok(())
    }) {
        Ok(v) => v,
        Err(p) => fail("Soes constants return", p),
    }
}

/// A long accumulation `acc = acc | term_k` (terms repeat non-adjacently), checked after every
/// step: forms whose behaviour changes with their length must still denote the OR.
fn check_soes_chain(n: usize, seq: &[u32]) -> Verdict {
    let r = guarded(|| {
        let mut acc = Soes::zero(n);
        let mut model = TT::zero(n);
        for (k, code) in seq.iter().enumerate() {
            let (v, x) = (code >> 1, code & 1 != 0);
            let term = Soes::from_cubes(n, vec![mk_ecube(v, x)]);
            acc = if k % 2 == 0 { &acc | &term } else { acc | term };
            let tm = EcubeM::from_mask(v, x);
            model = TT::from_fn(n, |m| model.get(m) || tm.value(m as u64));
            for m in 0..nbits(n) {
                if acc.value(m) != model.get(m) {
                    return fail(format!("after {} accumulated terms value({}) = {}", k + 1, m, model.get(m)), format!("{} ({} terms)", acc.value(m), acc.num_cubes()));
                }
            }
            let l = Lut::from(&acc);
            if l.blocks() != &model.w[..] {
                return fail(format!("after {} accumulated terms Lut::from = [{}]", k + 1, fmt_words(&model.w)), format!("{}", l));
            }
            if (acc.is_zero() && !model.is_const(false)) || (acc.is_one() && !model.is_const(true)) {
                return fail("is_zero/is_one only for the respective constants", format!("is_zero={} is_one={} after {} terms", acc.is_zero(), acc.is_one(), k + 1));
            }
        }
        // two long operands sharing a term
        let half = seq.len() / 2;
        let a = Soes::from_cubes(n, seq[..half].iter().map(|c| mk_ecube(c >> 1, c & 1 != 0)).collect());
        let b = Soes::from_cubes(n, seq[half - 1..].iter().map(|c| mk_ecube(c >> 1, c & 1 != 0)).collect());
        let u = &a | &b;
        for m in 0..nbits(n) {
            if u.value(m) != (a.value(m) || b.value(m)) {
                return fail(format!("(a | b).value({}) = a.value | b.value for two long operands sharing a term", m), format!("{} terms | {} terms -> {}", a.num_cubes(), b.num_cubes(), u.value(m)));
            }
        }
        Ok(())
    });
    match r {
        Ok(v) => v,
        Err(p) => fail("long Soes accumulation returns", p),
    }
}

pub fn replay(case: &Case) -> Result<Verdict, String> {
    let h = |k: &str| -> Result<u32, String> { u32::from_str_radix(case.get(k)?, 16).map_err(|e| e.to_string()) };
    let list = |k: &str| -> Result<Vec<u32>, String> { case.get(k)?.split('.').filter(|s| !s.is_empty()).map(|s| u32::from_str_radix(s, 16).map_err(|e| e.to_string())).collect() };
    if case.get("kind")? == "tour" {
        return super::xsize::replay(case, &tour);
    }
    Ok(match case.get("kind")? {
        "clonefrom" => check_soes_clone_from(case.usize("n")?, case.usize("m")?, &list("a")?, &list("b")?),
        "pair" => check_pair(h("va")?, case.usize("xa")? != 0, h("vb")?, case.usize("xb")? != 0),
        "consts" => check_consts(case.usize("v")?),
        "all" => check_all(case.usize("n")?),
        "implies_lut" => {
            let n = case.usize("n")?;
            check_implies_lut(n, &TT::from_words(n, &case.words("t")?).ok_or("t malformed")?, h("va")?, case.usize("xa")? != 0)
        }
        "soes" => check_soes(case.usize("n")?, &list("a")?, &list("b")?),
        "soesconst" => check_soes_consts(case.usize("n")?),
        "soeschain" => check_soes_chain(case.usize("n")?, &list("a")?),
        k => return Err(format!("unknown kind {}", k)),
    })
}

fn rec(l: &mut Local, v: Verdict, key: String, sig: &str, case: String, nontrivial: bool, h: u64) {
    l.transitions += 1;
    l.validated += 1;
    match v {
        Ok(()) => {
            l.digest ^= crate::engine::mix(h);
            l.nontrivial += nontrivial as u64;
        }
        Err(e) => l.violation(key, &format!("C13/{}", sig), case, e.0, e.1),
    }
}

fn join(v: &[u32]) -> String {
    v.iter().map(|x| format!("{:x}", x)).collect::<Vec<_>>().join(".")
}

/// `d.clone_from(&s)` where d is an existing Soes over m variables with terms b: afterwards d
/// is s (same size, same terms, same table), and `|` with s works.
fn check_soes_clone_from(n: usize, m: usize, a: &[u32], b: &[u32]) -> Verdict {
    let (ta, tb) = (soes_terms(a), soes_terms(b));
    let fa = soes_model(n, &ta);
    let r = guarded(|| {
        let s = Soes::from_cubes(n, ta.iter().map(|(v, x)| mk_ecube(*v, *x)).collect());
        let mut d = Soes::from_cubes(m, tb.iter().map(|(v, x)| mk_ecube(*v & ((1u32 << m) - 1), *x)).collect());
        d.clone_from(&s);
        if d.num_vars() != n {
            return fail(format!("after clone_from: num_vars = {}", n), format!("{}", d.num_vars()));
        }
        if d != s {
            return fail("after clone_from: equal to the source", format!("{:?} vs {:?}", d, s));
        }
        let l = Lut::from(&d);
        if l.num_vars() != n || l.blocks() != &fa.w[..] {
            return fail(format!("after clone_from: Lut::from = {}", show_tt(&fa)), format!("n={} [{}]", l.num_vars(), crate::engine::fmt_words(l.blocks())));
        }
        let o = &d | &s;
        let lo = Lut::from(o);
        if lo.num_vars() != n || lo.blocks() != &fa.w[..] {
            return fail(format!("after clone_from: d | s denotes {}", show_tt(&fa)), format!("n={} [{}]", lo.num_vars(), crate::engine::fmt_words(lo.blocks())));
        }
        Ok(())
    });
    match r {
        Ok(v) => v,
        Err(p) => fail("clone_from, ==, Lut::from and | return", p),
    }
}

/// One tour: the enumeration, a Soes conversion and implies_lut at every ordered pair of sizes.
pub fn tour(which: &str, k: usize, _thorough: bool) -> Result<super::xsize::Tour, String> {
    if which != "sizes" || k != 0 {
        return Err("no such tour".into());
    }
    let mut t = super::xsize::Tour::new("sizes:0");
    let sizes: Vec<usize> = (0..=8).collect();
    for s in super::xsize::size_pairs(&sizes) {
        t.push(format!("Ecube::all({})", s), move || check_all(s));
        let mask = if s >= 32 { !0u32 } else { (1u32 << s) - 1 };
        let a: Vec<u32> = vec![(0b101 & mask) << 1, ((0b11010 & mask) << 1) | 1];
        let b: Vec<u32> = vec![(mask << 1) | 1];
        t.push(format!("Soes n={} to Lut and |", s), move || check_soes(s, &a, &b));
        let tab = TT::from_fn(s, |m| crate::model::alpha::popcount(m) % 2 == 1);
        t.push(format!("Ecube::implies_lut n={}", s), move || check_implies_lut(s, &tab, mask, false));
    }
    Ok(t)
}

pub fn run(run: &Run) {
    run.set_rule("Ecube: state = a term (pair of terms), transitions = ^ (4 forms), ! (2 forms), ==, value, counters; Soes: state = an ordered term list (pair of lists), transitions = from_cubes, | (4 forms), value, Lut::from, is_zero/is_one; non-trivial = distinct operands / a non-empty list");
    run.assume("reference model: parity of the variables xor the xnor flag; OR of the term values (model::cube::EcubeM)");
    let n = 6u32;
    let size = 1u64 << (n + 1);
    run.section("ECUBE all ordered pairs of the 128 terms over 6 variables: ^ (4 forms), ! (2 forms), ==, value, counters", true, "complete: all pairs, all assignments x two backgrounds", size * size, 64, |r, l| {
        for idx in r {
            let (a, b) = (idx / size, idx % size);
            let (va, xa, vb, xb) = ((a >> 1) as u32, a & 1 != 0, (b >> 1) as u32, b & 1 != 0);
            l.states += 1;
            rec(l, check_pair(va, xa, vb, xb), format!("pair|{:08x}|{}|{:08x}|{}", va, xa as u8, vb, xb as u8), "ecube/pair", format!("kind=pair;va={:x};xa={};vb={:x};xb={}", va, xa as u8, vb, xb as u8), a != b, idx);
            if idx == size * size / 3 {
                l.sample(J::s(format!("kind=pair;va={:x};xa={};vb={:x};xb={}", va, xa as u8, vb, xb as u8)));
            }
        }
    });
    run.section_seq("ECUBE constructors for every variable 0..31; Ecube::all(n) n=0..8: 2^(n+1) distinct terms", true, "complete", |l| {
        for v in 0..32usize {
            l.states += 1;
            rec(l, check_consts(v), format!("consts|{:02}", v), "ecube/consts", format!("kind=consts;v={}", v), true, v as u64);
        }
        for k in 0..=8usize {
            l.states += 1 << (k + 1);
            rec(l, check_all(k), format!("all|{}", k), "ecube/all", format!("kind=all;n={}", k), true, 100 + k as u64);
        }
    });
    for k in 0..=4usize {
        let complete = k <= 3 || run.thorough();
        let tables: Vec<u64> = if complete { (0..(1u64 << nbits(k))).collect() } else { crate::model::alpha::family(k, run.seed, 2).iter().map(|t| t.w[0]).collect() };
        run.section(&format!("ECUBE implies_lut n={}: {} tables x all {} terms", k, tables.len(), 1 << (k + 1)), complete, if complete { "complete" } else { "the 4-variable alphabet (all functions in thorough)" }, tables.len() as u64, 16, |r, l| {
            for i in r {
                let t = TT::from_u64(k, tables[i as usize]);
                for e in 0..(1u32 << (k + 1)) {
                    l.states += 1;
                    rec(l, check_implies_lut(k, &t, e >> 1, e & 1 != 0), format!("implut|{}|{:x}|{:x}", k, t.w[0], e), "ecube/implies_lut", format!("kind=implies_lut;n={};t={};va={:x};xa={}", k, fmt_words(&t.w), e >> 1, e & 1), true, t.w[0] ^ ((e as u64) << 40));
                }
            }
        });
    }
    // wide: terms with <= 2 variables over 0..31 and 3-variable windows at every offset
    run.section_seq("ECUBE wide: all terms with <= 2 variables over 0..31 and every 3-variable window, paired with shifted copies", false, "pairs (t, t shifted by 1 / t ^ window) over 32 variables", |l| {
        let mut masks: Vec<u32> = vec![0];
        for i in 0..32 {
            masks.push(1 << i);
            for j in (i + 1)..32 {
                masks.push((1 << i) | (1 << j));
            }
        }
        for off in 0..=29 {
            for w in 1..8u32 {
                masks.push(w << off);
            }
        }
        masks.push(!0);
        masks.push(0x8000_0001);
        for (k, a) in masks.iter().enumerate() {
            for x in [false, true] {
                let b = masks[(k * 7 + 3) % masks.len()];
                l.states += 1;
                rec(l, check_pair(*a, x, b, !x), format!("pair|{:08x}|{}|{:08x}", a, x as u8, b), "ecube/pair", format!("kind=pair;va={:x};xa={};vb={:x};xb={}", a, x as u8, b, !x as u8), true, k as u64);
                l.states += 1;
                rec(l, check_pair(*a, x, a.rotate_left(1), x), format!("pair|{:08x}|{}|rot", a, x as u8), "ecube/pair", format!("kind=pair;va={:x};xa={};vb={:x};xb={}", a, x as u8, a.rotate_left(1), x as u8), true, k as u64 + 1);
            }
        }
    });
    run.section_seq("WIDE pairs that differ in exactly one variable (every variable 0..=31) or only in the polarity", true, "7 base masks x 32 variables x both polarities: a vs a^x_v must be unequal, compare unequal and evaluate differently", |l| {
        for base in [0u32, !0u32, 0x5555_5555, 0x8000_0001, 0x7fff_ffff, 0x0000_ffff, 0xdead_beef] {
            for v in 0..32u32 {
                for x in [false, true] {
                    let b = base ^ (1u32 << v);
                    l.states += 1;
                    rec(l, check_pair(base, x, b, x), format!("pair|{:08x}|{}|{:08x}|onevar", base, x as u8, b), "ecube/pair", format!("kind=pair;va={:x};xa={};vb={:x};xb={}", base, x as u8, b, x as u8), true, (base ^ v) as u64);
                    l.states += 1;
                    rec(l, check_pair(b, x, base, !x), format!("pair|{:08x}|{}|{:08x}|onevar-pol", b, x as u8, base), "ecube/pair", format!("kind=pair;va={:x};xa={};vb={:x};xb={}", b, x as u8, base, !x as u8), true, (base ^ v) as u64 + 7);
                }
            }
        }
    });
    // Soes: all ordered lists
    for k in 0..=4usize {
        let nterms = 1u64 << (k + 1);
        let maxlen: u32 = if k <= 2 { 4 } else if k == 3 { if run.thorough() { 4 } else { 3 } } else { if run.thorough() { 3 } else { 2 } };
        let mut total = 0u64;
        let mut offs = Vec::new();
        for len in 0..=maxlen {
            offs.push(total);
            total += nterms.pow(len);
        }
        run.section(&format!("SOES n={}: all ordered term lists of length 0..={} ({} lists), each | a second list", k, maxlen, total), true, "complete over ordered lists (incl. empty, constant and repeated terms); value, Lut::from, is_zero/is_one, counters, | in 4 forms", total, 64, |r, l| {
            for idx in r {
                let len = offs.iter().rposition(|o| *o <= idx).unwrap();
                let mut x = idx - offs[len];
                let mut a = Vec::new();
                for _ in 0..len {
                    a.push((x % nterms) as u32);
                    x /= nterms;
                }
                // the second operand: derived from the index (every list meets several partners)
                let blen = (idx % 3) as usize;
                let b: Vec<u32> = (0..blen).map(|j| ((idx / 3 + 5 * j as u64) % nterms) as u32).collect();
                l.states += 1;
                rec(l, check_soes(k, &a, &b), format!("soes|{}|{}|{}", k, join(&a), join(&b)), "soes", format!("kind=soes;n={};a={};b={}", k, join(&a), join(&b)), len > 0, idx);
                if idx == total / 2 {
                    l.sample(J::s(format!("kind=soes;n={};a={};b={}", k, join(&a), join(&b))));
                }
            }
        });
    }
    for k in 0..=3usize {
        let nterms = 1u32 << (k + 1);
        let maxlen = match (k, run.thorough()) {
            (0, _) | (1, _) => 3,
            (2, true) => 3,
            (2, false) => 2,
            (_, true) => 2,
            (_, false) => 1,
        };
        let mut lists: Vec<Vec<u32>> = vec![vec![]];
        let mut frontier: Vec<Vec<u32>> = vec![vec![]];
        for _ in 0..maxlen {
            let mut next = Vec::new();
            for f in &frontier {
                for t in 0..nterms {
                    let mut g = f.clone();
                    g.push(t);
                    next.push(g);
                }
            }
            lists.extend(next.iter().cloned());
            frontier = next;
        }
        let m = lists.len() as u64;
        run.section(&format!("SOES n={}: all ordered PAIRS of term lists of length <= {} ({} x {} pairs): a | b", k, maxlen, m, m), true, "complete cross product of the ordered lists: every list meets every partner", m * m, 256, |r, l| {
            for idx in r {
                let (a, b) = (&lists[(idx / m) as usize], &lists[(idx % m) as usize]);
                l.states += 1;
                rec(l, check_soes(k, a, b), format!("soes|{}|{}|{}", k, join(a), join(b)), "soes", format!("kind=soes;n={};a={};b={}", k, join(a), join(b)), !a.is_empty() && !b.is_empty(), idx);
            }
        });
    }
    run.section_seq("SOES long accumulations: acc = acc | term over 48..96 steps with non-adjacent repeats, n = 3, 5, 8; two long operands sharing a term", false, "sequences cycling through every term (n=3), through sparse terms (n=5, 8); checked after every step", |l| {
        for k in [3usize, 5, 8] {
            let nterm = 1u32 << (k + 1);
            let seqs: Vec<Vec<u32>> = (0..6u32)
                .map(|s| (0..(if k == 3 { 48 } else { 96 })).map(|i: u32| {
                    // non-constant terms, cycling with period 7 + s (repeats are never adjacent)
                    let j = i % (7 + s);
                    let code = (j * 37 + s * 11 + 2) % nterm;
                    if code < 2 { code + 2 } else { code }
                }).collect())
                .collect();
            for (i, seq) in seqs.iter().enumerate() {
                l.states += seq.len() as u64;
                rec(l, check_soes_chain(k, seq), format!("soeschain|{}|{}", k, i), "soes/long-accumulation", format!("kind=soeschain;n={};a={}", k, join(seq)), true, i as u64);
            }
        }
    });
    run.section_seq("SOES n=5..8: lists of alphabet terms (single variables, full parity, boundary sets) up to 4 terms; constants n=0..8", false, "enumerated alphabet of terms; all ordered lists up to 3 (4 thorough) terms of it", |l| {
        for k in 0..=8usize {
            l.states += 1;
            rec(l, check_soes_consts(k), format!("soesconst|{}", k), "soes/consts", format!("kind=soesconst;n={}", k), true, k as u64);
        }
        for k in 5..=8usize {
            let full = (1u32 << k) - 1;
            let mut terms: Vec<u32> = vec![0, 1, (full << 1) | 1, full << 1, (1 << k) | 1, 3 << 1, ((1 << (k - 1)) | 1) << 1, (0b101 << (k - 3)) << 1];
            for v in 0..k {
                terms.push((1 << v) << 1);
            }
            let nt = terms.len();
            let maxlen = if run.thorough() { 3 } else { 2 };
            let mut lists: Vec<Vec<u32>> = vec![vec![]];
            let mut frontier: Vec<Vec<u32>> = vec![vec![]];
            for _ in 0..maxlen {
                let mut next = Vec::new();
                for f in &frontier {
                    for t in &terms {
                        let mut g = f.clone();
                        g.push(*t);
                        next.push(g);
                    }
                }
                lists.extend(next.iter().cloned());
                frontier = next;
            }
            for (i, a) in lists.iter().enumerate() {
                let b = &lists[(i * 11 + 1) % (nt * nt).min(lists.len())];
                l.states += 1;
                rec(l, check_soes(k, a, b), format!("soes|{}|{}|{}", k, join(a), join(b)), "soes", format!("kind=soes;n={};a={};b={}", k, join(a), join(b)), true, i as u64);
            }
        }
    });
    run.section_seq("CLONE_FROM Soes: every ordered pair of sizes 0..=6 x term lists", false, "destination over m variables (3 term lists) overwritten from a source over n variables (4 term lists): size, terms, table and | afterwards", |l| {
        for n in 0..=6usize {
            for m in 0..=6usize {
                let mask = (1u32 << n) - 1;
                let srcs: Vec<Vec<u32>> = vec![vec![], vec![(mask << 1) | 1], vec![(1 & mask) << 1, ((mask >> 1) << 1) | 1], vec![(0b101 & mask) << 1, (0b110 & mask) << 1, 1]];
                let dsts: Vec<Vec<u32>> = vec![vec![], vec![0b11], vec![0b10, 0b101, 0b1110]];
                for a in &srcs {
                    for b in &dsts {
                        l.states += 1;
                        rec(l, check_soes_clone_from(n, m, a, b), format!("clonefrom|{}|{}|{}|{}", n, m, join(a), join(b)), "soes/clone_from", format!("kind=clonefrom;n={};m={};a={};b={}", n, m, join(a), join(b)), n != m, (n * 100 + m) as u64);
                    }
                }
            }
        }
    });
    super::xsize::run_tours(run, "C13", "sizes (Ecube::all(n), a Soes conversion and implies_lut at every ordered pair of sizes 0..=8 consecutively)", "results must not depend on what was computed before on the thread", 1, &|k| tour("sizes", k, false).unwrap());
}
