//! C10 — fixed-size LutN and dynamic Lut behave identically; conversions are lossless.
//!
//! State: a pair (s: LutN, d: Lut) holding the same function. Transitions: every public
//! operation common to both types with all in-range arguments. Oracle: the outcomes
//! correspond (tables block-identical, certificates, classes, counts, strings, orderings
//! equal) — each type is the other's model (bisimulation). Conversions: Lut -> LutN for all
//! (n, N), round trips, and the integer conversions of Lut3..Lut6 bit by bit.

use super::common::*;
use super::hist;
use crate::api::{dec_name, Tab};
use crate::engine::json::J;
use crate::engine::{fmt_words, guarded, hash_str, hash_words, Case, Local, Run};
use crate::model::alpha;
use crate::model::tt::{nbits, TT};
use crate::for_static;
use volute::Lut;

/// Every observation of one table through one type, in a fixed order: (label, value).
pub fn observe<L: Tab>(t: &TT, ops: &[String], others: &[TT], canon: bool) -> Vec<(String, String)> {
    let n = t.n;
    let mut v: Vec<(String, String)> = Vec::new();
    let mut push = |k: String, r: Result<String, String>| {
        v.push((
            k,
            match r {
                Ok(s) => s,
                Err(p) => format!("<{}>", p.split(':').next().unwrap_or("panic")),
            },
        ))
    };
    let l: L = mk_tt(t);
    push("num_vars/num_bits/num_blocks".into(), guarded(|| format!("{}/{}/{}", l.t_nv(), l.t_num_bits(), l.t_num_blocks())));
    let nb = nbits(n);
    let probes: Vec<usize> = if n <= 6 { (0..nb).collect() } else { vec![0, 1, 63, 64, nb / 2, nb - 1] };
    push("value".into(), guarded(|| probes.iter().map(|m| if l.t_value(*m) && l.t_get_bit(*m) { '1' } else { '0' }).collect()));
    push("to_hex_string".into(), guarded(|| l.t_hex()));
    push("to_bin_string".into(), guarded(|| l.t_bin()));
    push("display".into(), guarded(|| l.t_fmt_display()));
    push("lowerhex".into(), guarded(|| l.t_fmt_lowerhex()));
    push("binary".into(), guarded(|| l.t_fmt_binary()));
    for i in 0..n {
        push(format!("top_decomposition({})", i), guarded(|| dec_name(&l.t_top_decomposition(i)).to_string()));
        push(format!("unate({})", i), guarded(|| format!("{}/{}", l.t_is_pos_unate(i), l.t_is_neg_unate(i))));
    }
    push("bdd_complexity([t])".into(), guarded(|| L::t_bdd(&[l.clone()]).to_string()));
    if canon {
        push("p_canonization".into(), guarded(|| {
            let (r, p) = l.t_p_canon();
            format!("{} {:?}", fmt_words(r.t_blocks()), p)
        }));
        push("n_canonization".into(), guarded(|| {
            let (r, m) = l.t_n_canon();
            format!("{} {:#x}", fmt_words(r.t_blocks()), m)
        }));
        push("npn_canonization".into(), guarded(|| {
            let (r, p, m) = l.t_npn_canon();
            format!("{} {:?} {:#x}", fmt_words(r.t_blocks()), p, m)
        }));
    }
    for i in 0..n.saturating_sub(1) {
        push(format!("swap_adjacent({}) result and receiver", i), guarded(|| {
            let (r, recv) = l.t_swap_adjacent(i);
            format!("{} / {}", fmt_words(r.t_blocks()), fmt_words(recv.t_blocks()))
        }));
    }
    for op in ops {
        push(
            format!("op {}", op),
            match guarded(|| hist::op_subject(&l, op)) {
                Ok(Ok(x)) => Ok(fmt_words(x.t_blocks())),
                Ok(Err(e)) => Ok(format!("<{}>", e)),
                Err(p) => Err(p),
            },
        );
    }
    for (k, u) in others.iter().enumerate() {
        push(
            format!("cmp/eq/bdd with other #{} [{}]", k, fmt_words(&u.w)),
            guarded(|| {
                let o: L = mk_tt(u);
                format!("{:?} {:?} {} {} {} bdd={}", l.cmp(&o), l.partial_cmp(&o), l == o, l < o, std::cmp::max(l.clone(), o.clone()).t_hex(), L::t_bdd(&[l.clone(), o.clone()]))
            }),
        );
    }
    // ordering among single-bit deviations of this table (pairs that share their other words)
    {
        let nb = nbits(n);
        let mut pos: Vec<usize> = vec![0, 1, nb / 2, nb - 1];
        for w in 0..crate::model::tt::nwords(n) {
            pos.push(w * 64);
            pos.push(w * 64 + 63.min(nb - 1));
        }
        pos.retain(|p| *p < nb);
        pos.sort();
        pos.dedup();
        if pos.len() > 12 {
            let keep: Vec<usize> = pos.iter().copied().take(6).chain(pos.iter().copied().rev().take(6)).collect();
            pos = keep;
        }
        push(
            "cmp among single-bit deviations".into(),
            guarded(|| {
                let devs: Vec<L> = pos
                    .iter()
                    .map(|p| {
                        let mut x = l.clone();
                        x.t_set_value(*p, !l.t_value(*p));
                        x
                    })
                    .collect();
                let mut out = String::new();
                for a in &devs {
                    for b in &devs {
                        out.push(match a.cmp(b) {
                            std::cmp::Ordering::Less => '<',
                            std::cmp::Ordering::Equal => '=',
                            std::cmp::Ordering::Greater => '>',
                        });
                    }
                }
                let mut sorted = devs.clone();
                sorted.sort();
                format!("{} sorted-first={}", out, sorted.first().map(|x| x.t_hex()).unwrap_or_default())
            }),
        );
    }
    push("iterator step".into(), guarded(|| {
        let mut it = L::t_iter_from(l.clone());
        let a = it.next().map(|x| fmt_words(x.t_blocks()));
        let b = it.next().map(|x| fmt_words(x.t_blocks()));
        format!("{:?} {:?}", a, b)
    }));
    push("reparse".into(), guarded(|| match L::t_from_hex(n, &l.t_hex()) {
        Ok(x) => fmt_words(x.t_blocks()),
        Err(()) => "Err".into(),
    }));
    v
}

fn compare_pair<S: Tab>(t: &TT, ops: &[String], others: &[TT], canon: bool) -> Result<u64, (String, String)> {
    let a = observe::<S>(t, ops, others, canon);
    let b = observe::<Lut>(t, ops, others, canon);
    if a.len() != b.len() {
        return Err(("harness".into(), "observation lists differ in length".into()));
    }
    let mut h = 0u64;
    for ((ka, va), (_, vb)) in a.iter().zip(b.iter()) {
        if va != vb {
            return fail(format!("{}: Lut{} and Lut agree (Lut gives {})", ka, t.n, vb), format!("Lut{} gives {}", t.n, va));
        }
        h = h.rotate_left(5) ^ hash_str(va);
    }
    // conversions on this table
    let conv = guarded(|| {
        let s: S = mk_tt(t);
        let d: Lut = s.t_to_lut();
        let back: S = S::t_from_blocks(d.num_vars(), d.blocks());
        (d.num_vars(), d.blocks().to_vec(), back.t_blocks().to_vec())
    });
    match conv {
        Err(p) => fail("LutN -> Lut -> LutN returns", p),
        Ok((nv, db, bb)) => {
            if nv != t.n || db != t.w || bb != t.w {
                return fail(format!("LutN -> Lut -> LutN is the identity on [{}]", fmt_words(&t.w)), format!("Lut n={} [{}] -> [{}]", nv, fmt_words(&db), fmt_words(&bb)));
            }
            Ok(h)
        }
    }
}

pub fn replay(case: &Case) -> Result<Verdict, String> {
    let n = case.usize("n")?;
    match case.get("kind")? {
        "pair" => {
            let t = TT::from_words(n, &case.words("t")?).ok_or("t malformed")?;
            let (ops, others) = alphabet_for(n, 0, true);
            fn go<S: Tab>(t: &TT, ops: &[String], others: &[TT]) -> Verdict {
                compare_pair::<S>(t, ops, others, t.n <= 7).map(|_| ())
            }
            Ok(for_static!(n, go(&t, &ops, &others)))
        }
        "ctor" => {
            let init = case.get("init")?.to_string();
            fn go<S: Tab>(n: usize, init: &str) -> Verdict {
                ctor_pair::<S>(n, init).map(|_| ())
            }
            Ok(for_static!(n, go(n, &init)))
        }
        "tryfrom" => {
            let big = case.usize("N")?;
            fn go<S: Tab>(n: usize, big: usize) -> Verdict {
                tryfrom_one::<S>(n, big)
            }
            Ok(for_static!(big, go(n, big)))
        }
        "int" => Ok(int_one(n, case.u64("v")?)),
        "parse" => {
            let s = String::from_utf8((0..case.get("s")?.len() / 2).map(|i| u8::from_str_radix(&case.get("s").unwrap()[2 * i..2 * i + 2], 16).unwrap_or(b'?')).collect()).map_err(|e| e.to_string())?;
            fn go<S: Tab>(n: usize, s: &str) -> Verdict {
                parse_pair::<S>(n, s).map(|_| ())
            }
            Ok(for_static!(n, go(n, &s)))
        }
        "iterscript" => super::iter::replay("C10", case),
        k => Err(format!("unknown kind {}", k)),
    }
}

fn alphabet_for(n: usize, seed: u64, full: bool) -> (Vec<String>, Vec<TT>) {
    let pool = alpha::pool(n, seed);
    let operands: Vec<TT> = if full { pool.iter().take(8).cloned().collect() } else { pool.iter().take(3).cloned().collect() };
    let bits: Vec<usize> = if n <= 4 { (0..nbits(n)).collect() } else { vec![0, 1, nbits(n) / 2, nbits(n) - 1] };
    let ops = hist::op_alphabet(n, &operands, &bits, if full { &[0, 1, 2, 3, 4, 5, 6, 7] } else { &[2, 5] });
    let others: Vec<TT> = pool.iter().rev().take(if full { 6 } else { 3 }).cloned().collect();
    (ops, others)
}

fn report(l: &mut Local, n: usize, kind: &str, rest: String, sig: &str, v: (String, String)) {
    let key = format!("{:02}|{}|{}", n, kind, rest);
    l.violation(key, &format!("C10/{}", sig), format!("n={};kind={};{}", n, kind, rest), v.0, v.1);
}

fn pairs<S: Tab>(run: &Run, n: usize) {
    let (ops, others) = alphabet_for(n, run.seed, n <= 6);
    let complete = n <= 4;
    let fam: Vec<TT> = if complete {
        (0..(1u64 << nbits(n))).map(|x| TT::from_u64(n, x)).collect()
    } else {
        let mut f = alpha::family_capped(n, run.seed, if run.thorough() { 2 } else { 1 }, if run.thorough() { 40000 } else if n <= 10 { 6100 } else if n == 11 { 2800 } else { 5100 });
        if (7..=9).contains(&n) {
            // every 3-variable function embedded at ordered variable triples (appended: the
            // canonization prefix of the family stays what it was)
            f.extend(alpha::embedded3(n, false));
        }
        f
    };
    let total = fam.len() as u64;
    let ncanon = if n <= 5 { u64::MAX } else if n == 6 { 400 } else if n == 7 { 24 } else { 0 };
    run.section(
        &format!("BISIMULATION Lut{} ~ Lut: {} tables x ({} operations + observers{})", n, total, ops.len(), if ncanon > 0 { " + canonizations" } else { "" }),
        complete,
        if complete { "complete: every function of this size; every operation of the alphabet with all in-range arguments; all observers" } else { "alphabet F(N); canonizations on a prefix of the family for N = 6, 7" },
        total,
        4,
        |r, l| {
            for k in r {
                let t = &fam[k as usize];
                l.states += 1;
                let canon = k < ncanon || (n == 5 && true);
                match compare_pair::<S>(t, &ops, &others, canon && n <= 7) {
                    Ok(h) => {
                        let cnt = (ops.len() + others.len() + 12 + 2 * n) as u64;
                        l.transitions += cnt;
                        l.validated += cnt;
                        l.nontrivial += 1;
                        l.digest ^= crate::engine::mix3(hash_words(&t.w), n as u64, h);
                    }
                    Err(v) => {
                        l.transitions += 1;
                        l.validated += 1;
                        let sig = v.0.split(|c: char| c == ':' || c == '(' || c == ' ').next().unwrap_or("").to_string();
                        report(l, n, "pair", format!("t={}", fmt_words(&t.w)), &format!("pair/{}", sig), v);
                    }
                }
                if k == total / 2 {
                    l.sample(J::s(format!("n={};kind=pair;t={}", n, fmt_words(&t.w))));
                }
            }
        },
    );
}

fn ctor_pair<S: Tab>(n: usize, init: &str) -> Result<u64, (String, String)> {
    let a = guarded(|| hist::init_subject::<S>(n, init));
    let b = guarded(|| hist::init_subject::<Lut>(n, init));
    let show = |r: &Result<Result<Option<Vec<u64>>, String>, String>| match r {
        Ok(Ok(Some(w))) => format!("[{}]", fmt_words(w)),
        Ok(Ok(None)) => "Err".to_string(),
        Ok(Err(e)) => format!("harness: {}", e),
        Err(_) => "<panic>".to_string(),
    };
    let a = a.map(|r| r.map(|o| o.map(|l| l.t_blocks().to_vec())));
    let b = b.map(|r| r.map(|o| o.map(|l| if l.num_vars() == n || init == "default" { l.blocks().to_vec() } else { vec![u64::MAX, l.num_vars() as u64] })));
    let (sa, sb) = (show(&a), show(&b));
    if init == "default" {
        // Default for Lut is the 0-variable zero; for LutN the N-variable zero
        return if sa == format!("[{}]", fmt_words(&TT::zero(n).w)) && sb == "[0]" { Ok(0) } else { fail("Default is constant zero (of 0 variables for Lut)", format!("{} / {}", sa, sb)) };
    }
    if sa != sb {
        return fail(format!("{}: Lut{} and Lut agree (Lut gives {})", init, n, sb), format!("Lut{} gives {}", n, sa));
    }
    Ok(hash_str(&sa))
}

fn ctors<S: Tab>(run: &Run, n: usize) {
    let mut inits: Vec<String> = vec!["zero".into(), "one".into(), "parity".into(), "majority".into(), "default".into()];
    for i in 0..n {
        inits.push(format!("var:{}", i));
    }
    for k in (0..=n + 2).chain([63usize, 64, 65, usize::MAX]) {
        inits.push(format!("thr:{}", k));
        inits.push(format!("eq:{}", k));
    }
    let nsym = if n <= 10 || run.thorough() { 1usize << (n + 1) } else { 256 };
    for c in 0..nsym {
        inits.push(format!("sym:{}", c));
    }
    inits.push(format!("sym:{}", usize::MAX));
    inits.push(format!("sym:{}", 1usize << 63));
    for k in 0..20 {
        inits.push(format!("allfn:{}", k));
    }
    let total = inits.len() as u64;
    run.section(&format!("CONSTRUCTORS Lut{} ~ Lut: {} constructor calls", n, total), false, "every constructor with the arguments of C11 (symmetric: all masks up to N=10 quick / 12 thorough)", total, 64, |r, l| {
        for k in r {
            let init = &inits[k as usize];
            l.states += 1;
            l.transitions += 1;
            l.validated += 1;
            match ctor_pair::<S>(n, init) {
                Ok(h) => {
                    l.nontrivial += 1;
                    l.digest ^= crate::engine::mix3(hash_str(init), n as u64, h);
                }
                Err(v) => report(l, n, "ctor", format!("init={}", init), "ctor", v),
            }
        }
    });
}

fn parse_pair<S: Tab>(n: usize, s: &str) -> Result<u64, (String, String)> {
    let a = guarded(|| S::t_from_hex(n, s).map(|l| l.t_blocks().to_vec()));
    let b = guarded(|| Lut::t_from_hex(n, s).map(|l| l.t_blocks().to_vec()));
    let sh = |r: &Result<Result<Vec<u64>, ()>, String>| match r {
        Ok(Ok(w)) => format!("Ok[{}]", fmt_words(w)),
        Ok(Err(())) => "Err".into(),
        Err(_) => "<panic>".to_string(),
    };
    if sh(&a) != sh(&b) {
        return fail(format!("from_hex_string({:?}): Lut{} and Lut agree (Lut gives {})", s, n, sh(&b)), format!("Lut{} gives {}", n, sh(&a)));
    }
    Ok(hash_str(&sh(&a)))
}

fn parses<S: Tab>(run: &Run, n: usize) {
    const SIG: [&str; 13] = ["0", "1", "9", "a", "f", "A", "F", "g", "+", "-", " ", "x", "é"];
    let width = std::cmp::max(1, nbits(n) / 4);
    let maxlen = width + 1;
    let k = SIG.len() as u64;
    let mut total = 0u64;
    let mut offs = Vec::new();
    for len in 0..=maxlen {
        offs.push(total);
        total += k.pow(len as u32);
    }
    run.section(&format!("PARSER Lut{} ~ Lut: all strings of length 0..={} over {} symbols", n, maxlen, k), true, "complete over the 13-symbol alphabet up to width+1", total, 1024, |r, l| {
        for idx in r {
            let len = offs.iter().rposition(|o| *o <= idx).unwrap();
            let mut x = idx - offs[len];
            let mut s = String::new();
            for _ in 0..len {
                s.push_str(SIG[(x % k) as usize]);
                x /= k;
            }
            l.states += 1;
            l.transitions += 1;
            l.validated += 1;
            match parse_pair::<S>(n, &s) {
                Ok(h) => {
                    l.digest ^= crate::engine::mix3(hash_str(&s), n as u64, h);
                    l.nontrivial += (len == width) as u64;
                }
                Err(v) => report(l, n, "parse", format!("s={}", s.bytes().map(|b| format!("{:02x}", b)).collect::<String>()), "parse", v),
            }
        }
    });
}

/// `StaticLut::<big>::try_from(Lut of n variables with these blocks)`: Ok(blocks) / Err(())
pub fn try_from_dyn(n: usize, w: &[u64], big: usize) -> Result<Vec<u64>, ()> {
    let d = Lut::from_blocks(n, w);
    fn conv<const N: usize, const T: usize>(d: Lut) -> Result<Vec<u64>, ()> {
        volute::StaticLut::<N, T>::try_from(d).map(|s| s.blocks().to_vec())
    }
    match big {
        0 => conv::<0, 1>(d),
        1 => conv::<1, 1>(d),
        2 => conv::<2, 1>(d),
        3 => conv::<3, 1>(d),
        4 => conv::<4, 1>(d),
        5 => conv::<5, 1>(d),
        6 => conv::<6, 1>(d),
        7 => conv::<7, 2>(d),
        8 => conv::<8, 4>(d),
        9 => conv::<9, 8>(d),
        10 => conv::<10, 16>(d),
        11 => conv::<11, 32>(d),
        12 => conv::<12, 64>(d),
        _ => Err(()),
    }
}

fn tryfrom_one<S: Tab>(n: usize, big: usize) -> Verdict {
    // Lut of n variables -> LutN of `big` variables: fails exactly when the counts differ
    let pats = alpha::word_patterns(n, 0, 0);
    for t in pats.iter().rev().take(3).chain(alpha::named(n).iter().take(3)) {
        let r = guarded(|| {
            let d = Lut::from_blocks(n, &t.w);
            fn conv<const N: usize, const T: usize>(d: Lut) -> Result<Vec<u64>, ()> {
                volute::StaticLut::<N, T>::try_from(d).map(|s| s.blocks().to_vec())
            }
            match big {
                0 => conv::<0, 1>(d),
                1 => conv::<1, 1>(d),
                2 => conv::<2, 1>(d),
                3 => conv::<3, 1>(d),
                4 => conv::<4, 1>(d),
                5 => conv::<5, 1>(d),
                6 => conv::<6, 1>(d),
                7 => conv::<7, 2>(d),
                8 => conv::<8, 4>(d),
                9 => conv::<9, 8>(d),
                10 => conv::<10, 16>(d),
                11 => conv::<11, 32>(d),
                12 => conv::<12, 64>(d),
                _ => Err(()),
            }
        });
        match r {
            Err(p) => return fail(format!("TryFrom<Lut> (n={}) for Lut{} returns {}", n, big, if n == big { "Ok" } else { "Err" }), p),
            Ok(Ok(w)) => {
                if n != big {
                    return fail(format!("TryFrom<Lut> (n={}) for Lut{} = Err", n, big), format!("Ok[{}]", fmt_words(&w)));
                }
                if w != t.w {
                    return fail(format!("TryFrom keeps the table [{}]", fmt_words(&t.w)), format!("[{}]", fmt_words(&w)));
                }
            }
            Ok(Err(())) => {
                if n == big {
                    return fail(format!("TryFrom<Lut> (n={}) for Lut{} = Ok", n, big), "Err");
                }
            }
        }
    }
    let _ = std::marker::PhantomData::<S>;
    Ok(())
}

fn tryfroms(run: &Run) {
    run.section("CONVERSIONS Lut(n) -> LutN for all (n, N) in 0..=13 x 0..=12", true, "complete over the size pairs: fails exactly when the variable counts differ, lossless otherwise", 14 * 13, 1, |r, l| {
        for idx in r {
            let (n, big) = ((idx / 13) as usize, (idx % 13) as usize);
            l.states += 1;
            l.transitions += 6;
            l.validated += 6;
            l.nontrivial += (n == big) as u64;
            fn go<S: Tab>(n: usize, big: usize) -> Verdict {
                tryfrom_one::<S>(n, big)
            }
            match for_static!(big, go(n, big)) {
                Ok(()) => l.digest ^= crate::engine::mix3(n as u64, big as u64, 1),
                Err(v) => report(l, n, "tryfrom", format!("N={}", big), "tryfrom", v),
            }
        }
    });
}

/// integer conversions of Lut3..Lut6: bit m of the integer is f(m), both ways
fn int_one(n: usize, v: u64) -> Verdict {
    let r = guarded(|| match n {
        3 => {
            let l = volute::Lut3::from(v as u8);
            (l.blocks().to_vec(), (0..8).map(|m| l.value(m)).collect::<Vec<bool>>(), u8::from(l) as u64)
        }
        4 => {
            let l = volute::Lut4::from(v as u16);
            (l.blocks().to_vec(), (0..16).map(|m| l.value(m)).collect::<Vec<bool>>(), u16::from(l) as u64)
        }
        5 => {
            let l = volute::Lut5::from(v as u32);
            (l.blocks().to_vec(), (0..32).map(|m| l.value(m)).collect::<Vec<bool>>(), u32::from(l) as u64)
        }
        _ => {
            let l = volute::Lut6::from(v);
            (l.blocks().to_vec(), (0..64).map(|m| l.value(m)).collect::<Vec<bool>>(), u64::from(l))
        }
    });
    match r {
        Err(p) => fail("integer conversion returns", p),
        Ok((blocks, vals, back)) => {
            let want: Vec<bool> = (0..nbits(n)).map(|m| (v >> m) & 1 != 0).collect();
            if vals != want || blocks != vec![v] {
                return fail(format!("bit m of {:#x} is f(m); blocks [{:x}]", v, v), format!("blocks [{}], values {:?}", fmt_words(&blocks), vals.iter().map(|b| *b as u8).collect::<Vec<u8>>()));
            }
            if back != v {
                return fail(format!("converting back gives {:#x}", v), format!("{:#x}", back));
            }
            // out of a table obtained otherwise (through operations), the integer is its block
            Ok(())
        }
    }
}

fn ints(run: &Run, n: usize) {
    let nb = nbits(n);
    let complete = n <= 4 || (n == 5 && run.thorough());
    let vals: Vec<u64> = if complete {
        Vec::new()
    } else {
        let mut v: Vec<u64> = alpha::family(n, run.seed, 2).iter().map(|t| t.w[0]).collect();
        v.sort();
        v.dedup();
        v
    };
    let total = if complete { 1u64 << nb } else { vals.len() as u64 };
    run.section(&format!("CONVERSIONS u{} <-> Lut{}: bit m of the integer is f(m), both ways", nb, n), complete, if complete { "complete: every integer value" } else { "all weight-1/2 words and complements, word patterns" }, total, 1 << 14, |r, l| {
        for idx in r {
            let v = if complete { idx } else { vals[idx as usize] };
            l.states += 1;
            l.transitions += 2;
            l.validated += 2;
            l.nontrivial += 1;
            if complete && n == 5 {
                // fast path on the encoding; by the book on any doubt
                let ok = guarded(|| {
                    let lt = volute::Lut5::from(v as u32);
                    lt.blocks()[0] == v && u32::from(lt) as u64 == v && u32::from(!lt) as u64 == (!v & 0xffff_ffff)
                });
                if ok == Ok(true) {
                    l.digest ^= crate::engine::mix3(v, n as u64, 2);
                    continue;
                }
            }
            match int_one(n, v) {
                Ok(()) => l.digest ^= crate::engine::mix3(v, n as u64, 2),
                Err(e) => report(l, n, "int", format!("v={}", v), "int", e),
            }
        }
    });
    // integers out of tables produced by operations (masking on the way out)
    run.section_seq(&format!("CONVERSIONS Lut{} -> u{} after operations (not, flips)", n, nb), false, "tables obtained through not/flip/cofactors, then converted", |l| {
        for t in alpha::family(n, run.seed, 1) {
            let r = guarded(|| match n {
                3 => {
                    let x = volute::Lut3::from_blocks(&t.w);
                    (u8::from(!x) as u64, u8::from(x.flip(2)) as u64, (!x).blocks()[0], x.flip(2).blocks()[0])
                }
                4 => {
                    let x = volute::Lut4::from_blocks(&t.w);
                    (u16::from(!x) as u64, u16::from(x.flip(3)) as u64, (!x).blocks()[0], x.flip(3).blocks()[0])
                }
                5 => {
                    let x = volute::Lut5::from_blocks(&t.w);
                    (u32::from(!x) as u64, u32::from(x.flip(4)) as u64, (!x).blocks()[0], x.flip(4).blocks()[0])
                }
                _ => {
                    let x = volute::Lut6::from_blocks(&t.w);
                    (u64::from(!x), u64::from(x.flip(5)), (!x).blocks()[0], x.flip(5).blocks()[0])
                }
            });
            l.states += 1;
            l.transitions += 2;
            l.validated += 2;
            l.nontrivial += 1;
            let (m_not, m_flip) = (t.not().w[0], t.flip(n - 1).w[0]);
            match r {
                Ok((a, b, _, _)) if a == m_not && b == m_flip => l.digest ^= crate::engine::mix3(t.w[0], n as u64, 7),
                other => report(l, n, "int", format!("v={}", t.w[0]), "int-after-op", (format!("u{}::from(!t) = {:#x}, from(flip) = {:#x}", nb, m_not, m_flip), format!("{:?}", other))),
            }
        }
    });
}

pub fn run(run: &Run) {
    run.set_rule("state = a pair (LutN, Lut) holding the same function; transition = the same public call on both; the outcomes must correspond; non-trivial = every paired call (each is a distinct argument tuple)");
    run.assume("no third model: each type is the other's model (bisimulation); that the shared behaviour is the right one is C01..C09, C11");
    fn pr<S: Tab>(run: &Run, n: usize) {
        pairs::<S>(run, n)
    }
    fn ct<S: Tab>(run: &Run, n: usize) {
        ctors::<S>(run, n)
    }
    fn ps<S: Tab>(run: &Run, n: usize) {
        parses::<S>(run, n)
    }
    for n in 0..=12usize {
        for_static!(n, ct(run, n));
        for_static!(n, pr(run, n));
        if n <= 3 {
            for_static!(n, ps(run, n));
        }
    }
    tryfroms(run);
    for n in 3..=6usize {
        ints(run, n);
    }
    super::iter::run_sections(run, "C10", if run.thorough() { 10 } else { 8 });
}
