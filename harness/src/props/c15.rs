//! C15 — Lut -> Esop conversion yields the unique positive-polarity Reed-Muller form;
//! ^ and ! on Esops denote XOR and complement.

use super::c12::abs_cube;
use super::common::*;
use crate::engine::json::J;
use crate::engine::{fmt_words, guarded, Case, Local, Run};
use crate::model::alpha;
use crate::model::cube::CubeM;
use crate::model::tt::{nbits, TT};
use std::collections::BTreeSet;
use volute::sop::{Cube, Esop};
use volute::Lut;

/// ANF coefficient of the all-positive cube S: XOR of f over all assignments contained in S
fn anf_coeff(t: &TT, s: usize) -> bool {
    let mut acc = false;
    // enumerate the subsets of s
    let mut sub = s;
    loop {
        acc ^= t.get(sub);
        if sub == 0 {
            break;
        }
        sub = (sub - 1) & s;
    }
    acc
}

fn check_from_lut(t: &TT) -> Verdict {
    let n = t.n;
    let want: BTreeSet<usize> = (0..nbits(n)).filter(|s| anf_coeff(t, *s)).collect();
    let r = guarded(|| {
        let l = Lut::from_blocks(n, &t.w);
        let e1 = Esop::from(&l);
        let e2 = Esop::from(l.clone());
        // the same function obtained through another history
        let l3 = !(!l.clone());
        let e3 = Esop::from(&l3);
        if e1 != e2 || e1 != e3 {
            return fail("equal functions give equal Esops", format!("{} / {} / {}", e1, e2, e3));
        }
        if e1.num_vars() != n {
            return fail(format!("num_vars = {}", n), format!("{}", e1.num_vars()));
        }
        let mut got: BTreeSet<usize> = BTreeSet::new();
        for c in e1.cubes() {
            let a = abs_cube(c);
            if !a.neg.is_empty() || a.contradictory() {
                return fail("no negative literal in the Reed-Muller form", format!("{}", e1));
            }
            let s = a.pos.iter().fold(0usize, |x, v| x | (1 << v));
            if s >= nbits(n) {
                return fail(format!("cubes over variables 0..{}", n), format!("{}", e1));
            }
            if !got.insert(s) {
                return fail("each cube once", format!("{}", e1));
            }
        }
        if got != want {
            let d: Vec<usize> = got.symmetric_difference(&want).copied().take(4).collect();
            return fail(format!("exactly the {} positive cubes whose ANF coefficient is 1 (by definition: XOR of f over the assignments inside the cube)", want.len()), format!("{} (differs on cube masks {:?})", e1, d));
        }
        let back = Lut::from(&e1);
        if back != l || Lut::from(e1.clone()) != l {
            return fail("converting back gives the function", format!("{}", back));
        }
        for m in 0..nbits(n).min(64) {
            if e1.value(m) != t.get(m) {
                return fail(format!("value({}) = {}", m, t.get(m)), format!("{}", e1.value(m)));
            }
        }
        if e1.is_zero() != t.is_const(false) && e1.is_zero() {
            return fail("is_zero only for the constant zero", format!("{}", e1));
        }
        if e1.is_one() && !t.is_const(true) {
            return fail("is_one only for the constant one", format!("{}", e1));
        }
        if e1.num_cubes() != want.len() {
            return fail(format!("num_cubes = {}", want.len()), format!("{}", e1.num_cubes()));
        }
        Ok(())
    });
    match r {
        Ok(v) => v,
        Err(p) => fail("Lut <-> Esop conversions return", p),
    }
}

type Key = Vec<(u32, u32)>;

fn denote(n: usize, k: &Key) -> TT {
    let ms: Vec<CubeM> = k.iter().map(|(p, q)| CubeM::from_masks(*p, *q)).collect();
    TT::from_fn(n, |m| ms.iter().filter(|c| c.value(m as u64)).count() % 2 == 1)
}

fn esop_of(n: usize, k: &Key) -> Esop {
    Esop::from_cubes(n, k.iter().map(|(p, q)| Cube::from_mask(*p, *q)).collect())
}

fn show_key(k: &Key) -> String {
    k.iter().map(|(p, q)| format!("{:x}/{:x}", p, q)).collect::<Vec<_>>().join(",")
}

fn parse_key(s: &str) -> Result<Key, String> {
    s.split(',').filter(|x| !x.is_empty()).map(|x| {
        let (p, q) = x.split_once('/').ok_or("bad cube")?;
        Ok((u32::from_str_radix(p, 16).map_err(|e| e.to_string())?, u32::from_str_radix(q, 16).map_err(|e| e.to_string())?))
    }).collect()
}

fn check_esop(what: &str, n: usize, e: &Esop, f: &TT) -> Verdict {
    if e.num_vars() != n {
        return fail(format!("{}: num_vars = {}", what, n), format!("{}", e.num_vars()));
    }
    let ms: Vec<CubeM> = e.cubes().iter().map(abs_cube).collect();
    for m in 0..nbits(n) {
        let by = ms.iter().filter(|c| c.value(m as u64)).count() % 2 == 1;
        if by != f.get(m) {
            return fail(format!("{}: denotes [{}] (value {} on {})", what, fmt_words(&f.w), f.get(m), m), format!("{}", e));
        }
        if e.value(m) != by {
            return fail(format!("{}: value({}) = {} (parity of its cubes)", what, m, by), format!("{}", e.value(m)));
        }
    }
    let l = Lut::from(e);
    if l.blocks() != &f.w[..] || l.num_vars() != n {
        return fail(format!("{}: Lut::from gives [{}]", what, fmt_words(&f.w)), format!("{}", l));
    }
    if e.is_zero() && !f.is_const(false) {
        return fail(format!("{}: is_zero only for the constant zero", what), format!("{}", e));
    }
    if e.is_one() && !f.is_const(true) {
        return fail(format!("{}: is_one only for the constant one", what), format!("{}", e));
    }
    let lits: usize = ms.iter().map(|c| c.num_lits()).sum();
    if e.num_cubes() != ms.len() || e.num_lits() != lits {
        return fail(format!("{}: num_cubes = {}, num_lits = {}", what, ms.len(), lits), format!("{} {}", e.num_cubes(), e.num_lits()));
    }
    Ok(())
}

fn check_ops(n: usize, a: &Key, b: &Key) -> Verdict {
    let (fa, fb) = (denote(n, a), denote(n, b));
    let r = guarded(|| {
        let (ea, eb) = (esop_of(n, a), esop_of(n, b));
        check_esop("from_cubes(a)", n, &ea, &fa)?;
        let fx = TT::pointwise(&fa, &fb, |x, y| x != y);
        let forms: [Esop; 4] = [ea.clone() ^ eb.clone(), &ea ^ eb.clone(), &ea ^ &eb, ea.clone() ^ &eb];
        for (k, e) in forms.iter().enumerate() {
            check_esop(&format!("a ^ b (form {})", k), n, e, &fx)?;
        }
        let fnot = fa.not();
        check_esop("!a", n, &!ea.clone(), &fnot)?;
        check_esop("!&a", n, &!&ea, &fnot)?;
        check_esop("!!a", n, &!!ea.clone(), &fa)?;
        Ok(())
    });
    match r {
        Ok(v) => v,
        Err(p) => fail("Esop operators return", p),
    }
}

fn check_consts(n: usize) -> Verdict {
    match guarded(|| {
        check_esop("Esop::zero", n, &Esop::zero(n), &TT::zero(n))?;
        check_esop("Esop::one", n, &Esop::one(n), &TT::zero(n).not())?;
        if !Esop::zero(n).is_zero() || !Esop::one(n).is_one() {
            return fail("zero().is_zero() and one().is_one()", "false");
        }
        for v in 0..n {
            check_esop("Esop::nth_var", n, &Esop::nth_var(n, v), &TT::from_fn(n, |m| (m >> v) & 1 == 1))?;
            check_esop("Esop::nth_var_inv", n, &Esop::nth_var_inv(n, v), &TT::from_fn(n, |m| (m >> v) & 1 == 0))?;
        }
        Ok(())
    }) {
        Ok(v) => v,
        Err(p) => fail("Esop constants return", p),
    }
}

/// Non-canonical Esops (negative literals, repeated cubes) -> Lut, on multi-word sizes.
fn check_to_lut(n: usize, k: &Key) -> Verdict {
    let f = denote(n, k);
    match guarded(|| {
        let e = esop_of(n, k);
        check_esop("from_cubes", n, &e, &f)
    }) {
        Ok(v) => v,
        Err(p) => fail("Esop -> Lut returns", p),
    }
}

/// A long chain `acc = acc ^ Esop::from(f_k)` with functions recurring (multiplicities 2, 3, ...),
/// checked after every step.
fn check_chain(n: usize, fs: &[TT]) -> Verdict {
    let r = guarded(|| {
        let mut acc = Esop::zero(n);
        let mut model = TT::zero(n);
        for (k, f) in fs.iter().enumerate() {
            let e = Esop::from(&Lut::from_blocks(n, &f.w));
            acc = if k % 2 == 0 { &acc ^ &e } else { acc ^ e };
            model = TT::pointwise(&model, f, |a, b| a != b);
            let l = Lut::from(&acc);
            if l.blocks() != &model.w[..] {
                return fail(format!("after {} xor steps ({} cubes) the chain denotes [{}...]", k + 1, acc.num_cubes(), fmt_words(&model.w[..1])), format!("Lut::from gives [{}...]", fmt_words(&l.blocks()[..1])));
            }
            for m in [0usize, 1, nbits(n) / 2, nbits(n) - 1, 77 % nbits(n), 300 % nbits(n)] {
                if acc.value(m) != model.get(m) {
                    return fail(format!("after {} xor steps value({}) = {}", k + 1, m, model.get(m)), format!("{}", acc.value(m)));
                }
            }
            if (acc.is_zero() && !model.is_const(false)) || (acc.is_one() && !model.is_const(true)) {
                return fail("is_zero/is_one only for the constants", format!("after {} steps", k + 1));
            }
        }
        Ok(())
    });
    match r {
        Ok(v) => v,
        Err(p) => fail("long Esop chain returns", p),
    }
}

/// `d.clone_from(&s)`: d an existing Esop over m variables (cubes b), s over n variables (cubes a).
fn check_clone_from(n: usize, m: usize, a: &Key, b: &Key) -> Verdict {
    let fa = denote(n, a);
    match guarded(|| {
        let s = esop_of(n, a);
        let mut d = esop_of(m, b);
        d.clone_from(&s);
        check_esop("after clone_from", n, &d, &fa)?;
        if d != s {
            return fail("after clone_from: equal to the source", format!("{} vs {}", d, s));
        }
        check_esop("!d after clone_from", n, &!&d, &fa.not())?;
        check_esop("d ^ s after clone_from", n, &(&d ^ &s), &TT::zero(n))?;
        Ok(())
    }) {
        Ok(v) => v,
        Err(p) => fail("clone_from and the operations after it return", p),
    }
}

fn mask_key(k: &Key, n: usize) -> Key {
    let full = if n >= 32 { !0u32 } else { (1u32 << n) - 1 };
    k.iter().map(|(p, q)| (p & full, q & full)).filter(|(p, q)| p & q == 0).collect()
}

/// Tours: conversions (cube-level comparison) and operators at every ordered pair of sizes.
pub fn tour(which: &str, k: usize, thorough: bool) -> Result<super::xsize::Tour, String> {
    if which != "sizes" {
        return Err("no such tour".into());
    }
    let sizes: Vec<usize> = (0..=if thorough { 11 } else { 10 }).collect();
    let a0 = *sizes.get(k).ok_or("no such tour")?;
    let mut t = super::xsize::Tour::new(format!("sizes:{}", k));
    let ka: Key = vec![(0b1, 0), (0b110, 0), (0b1, 0), (0b100100000, 0), (0b11, 0b100)];
    let kb: Key = vec![(0b1, 0), (0, 0), (0b1000000000, 0b10)];
    for s in super::xsize::size_pairs_from(a0, &sizes) {
        let pats = crate::model::alpha::word_patterns(s, 0, 0);
        for tab in [pats[pats.len() - 1].clone(), TT::from_fn(s, |m| crate::model::alpha::popcount(m) >= 2 && m % 5 != 0)] {
            t.push(format!("Esop::from(&lut) n={}", s), move || check_from_lut(&tab));
        }
        let (a, b) = (mask_key(&ka, s), mask_key(&kb, s));
        t.push(format!("^ and ! n={}", s), move || check_ops(s, &a, &b));
        let pos: Key = mask_key(&ka, s).into_iter().map(|(p, _)| (p, 0)).collect();
        t.push(format!("Lut::from(all-positive esop with a repeated cube) n={}", s), move || check_to_lut(s, &pos));
    }
    Ok(t)
}

pub fn replay(case: &Case) -> Result<Verdict, String> {
    if case.get("kind")? == "tour" {
        return super::xsize::replay(case, &tour);
    }
    let n = case.usize("n")?;
    Ok(match case.get("kind")? {
        "clonefrom" => check_clone_from(n, case.usize("m")?, &parse_key(case.get("a")?)?, &parse_key(case.get("b")?)?),
        "fromlut" => check_from_lut(&TT::from_words(n, &case.words("t")?).ok_or("t malformed")?),
        "ops" => check_ops(n, &parse_key(case.get("a")?)?, &parse_key(case.get("b")?)?),
        "consts" => check_consts(n),
        "tolut" => check_to_lut(n, &parse_key(case.get("a")?)?),
        "chain" => {
            let mut fs = Vec::new();
            for part in case.get("fs")?.split(',').filter(|x| !x.is_empty()) {
                fs.push(TT::from_words(n, &crate::engine::parse_words(part)?).ok_or("malformed table")?);
            }
            check_chain(n, &fs)
        }
        k => return Err(format!("unknown kind {}", k)),
    })
}

fn rec(l: &mut Local, v: Verdict, key: String, sig: &str, case: String, nontrivial: bool, h: u64) {
    l.transitions += 1;
    l.validated += 1;
    match v {
        Ok(()) => {
            l.digest ^= crate::engine::mix(h);
            l.nontrivial += nontrivial as u64;
        }
        Err(e) => l.violation(key, &format!("C15/{}", sig), case, e.0, e.1),
    }
}

pub fn run(run: &Run) {
    run.set_rule("conversion: state = a function, transition = Esop::from; operators: state = an ordered cube list (pair of lists), transitions = ^ (4 forms), ! (2 forms); non-trivial = a non-constant function / non-empty lists");
    run.assume("reference model: ANF coefficient of a positive cube = XOR of f over the assignments contained in it (by that definition, not by a butterfly); an Esop denotes the parity of its cubes");
    for n in 0..=4usize {
        let size = 1u64 << nbits(n);
        run.section(&format!("CONVERSION all tables n={}: Esop::from(&lut) = positive-polarity Reed-Muller form", n), true, "complete: every function, every one of the 2^n coefficients", size, 64, |r, l| {
            for x in r {
                let t = TT::from_u64(n, x);
                l.states += 1;
                rec(l, check_from_lut(&t), format!("{:02}|fromlut|{:x}", n, x), "from_lut", format!("kind=fromlut;n={};t={}", n, fmt_words(&t.w)), x != 0, x ^ ((n as u64) << 60));
                if x == size / 3 {
                    l.sample(J::s(format!("kind=fromlut;n={};t={}", n, fmt_words(&t.w))));
                }
            }
        });
    }
    for n in 5..=10usize {
        let fam = alpha::family_capped(n, run.seed, if run.thorough() { 2 } else { 1 }, if run.thorough() { 40000 } else if n <= 8 { 10000 } else { 1500 });
        run.section(&format!("CONVERSION F({}): Esop::from(&lut)", n), false, &format!("|F(n)|={}", fam.len()), fam.len() as u64, 4, |r, l| {
            for k in r {
                let t = &fam[k as usize];
                l.states += 1;
                rec(l, check_from_lut(t), format!("{:02}|fromlut|{}", n, fmt_words(&t.w)), "from_lut", format!("kind=fromlut;n={};t={}", n, fmt_words(&t.w)), true, crate::engine::hash_words(&t.w));
            }
        });
    }
    for n in 0..=3usize {
        let mut cubes: Vec<(u32, u32)> = Vec::new();
        for p in 0..(1u32 << n) {
            for q in 0..(1u32 << n) {
                if p & q == 0 {
                    cubes.push((p, q));
                }
            }
        }
        let nc = cubes.len() as u64;
        let maxlen: u32 = if n <= 1 { 4 } else if n == 2 { if run.thorough() { 4 } else { 3 } } else if run.thorough() { 3 } else { 2 };
        let mut total = 0u64;
        let mut offs = Vec::new();
        for len in 0..=maxlen {
            offs.push(total);
            total += nc.pow(len);
        }
        run.section(&format!("OPERATORS n={}: all ordered cube lists of length 0..={} ({} lists): from_cubes, ^ (4 forms) with a partner list, ! (2 forms)", n, maxlen, total), true, "complete over ordered lists of cubes (incl. repeated and constant cubes)", total, 64, |r, l| {
            for idx in r {
                let len = offs.iter().rposition(|o| *o <= idx).unwrap();
                let mut x = idx - offs[len];
                let mut a: Key = Vec::new();
                for _ in 0..len {
                    a.push(cubes[(x % nc) as usize]);
                    x /= nc;
                }
                let blen = (idx % 3) as usize;
                let b: Key = (0..blen).map(|j| cubes[((idx / 3 + 7 * j as u64) % nc) as usize]).collect();
                l.states += 1;
                rec(l, check_ops(n, &a, &b), format!("{:02}|ops|{}|{}", n, show_key(&a), show_key(&b)), "operators", format!("kind=ops;n={};a={};b={}", n, show_key(&a), show_key(&b)), len > 0, idx);
                if idx == total / 2 {
                    l.sample(J::s(format!("kind=ops;n={};a={};b={}", n, show_key(&a), show_key(&b))));
                }
            }
        });
    }
    for n in 7..=10usize {
        // cubes with literals on the word-selecting variables (>= 6), both polarities, with and without a low literal
        let hi: Vec<u32> = (6..n as u32).collect();
        let mut cubes: Vec<(u32, u32)> = vec![(0, 0), (1, 0), (0, 2)];
        for (i, a) in hi.iter().enumerate() {
            for pa in [true, false] {
                let la = if pa { (1u32 << a, 0u32) } else { (0u32, 1u32 << a) };
                cubes.push(la);
                cubes.push((la.0 | 1, la.1 | 4));
                for b in hi.iter().skip(i + 1) {
                    for pb in [true, false] {
                        let lb = if pb { (1u32 << b, 0u32) } else { (0u32, 1u32 << b) };
                        cubes.push((la.0 | lb.0, la.1 | lb.1));
                        cubes.push((la.0 | lb.0 | 2, la.1 | lb.1 | 1));
                    }
                }
            }
        }
        if n >= 9 {
            cubes.push((1, (1 << 6) | (1 << 7) | (1 << 8)));
            cubes.push((0, ((1u32 << n) - 1) & !0x3f));
        }
        cubes.sort();
        cubes.dedup();
        let nc = cubes.len() as u64;
        let maxlen: u32 = if n <= 8 { 2 } else { 1 };
        let total = 1 + nc + if maxlen >= 2 { nc * nc } else { 0 } + nc;
        run.section(&format!("NON-CANONICAL Esop -> Lut n={}: from_cubes lists (<= {} cubes, plus each cube xor the parity form) with negative literals on variables >= 6", n, maxlen), false, "cube alphabet over the word-selecting variables; value on every assignment, Lut::from, flags", total, 16, |r, l| {
            for idx in r {
                let k: Key = if idx == 0 {
                    vec![]
                } else if idx <= nc {
                    vec![cubes[(idx - 1) as usize]]
                } else if maxlen >= 2 && idx <= nc + nc * nc {
                    let j = idx - 1 - nc;
                    vec![cubes[(j / nc) as usize], cubes[(j % nc) as usize]]
                } else {
                    // a cube together with the canonical form of the parity function
                    let j = (idx - 1 - nc - if maxlen >= 2 { nc * nc } else { 0 }) as usize;
                    let mut k: Key = (0..n as u32).map(|v| (1u32 << v, 0u32)).collect();
                    k.push(cubes[j]);
                    k
                };
                l.states += 1;
                rec(l, check_to_lut(n, &k), format!("{:02}|tolut|{}", n, show_key(&k)), "to_lut", format!("kind=tolut;n={};a={}", n, show_key(&k)), true, idx);
            }
        });
    }
    run.section_seq("CHAINS n=8,10: acc = acc ^ Esop::from(f_k) over 12..16 steps with recurring functions (thousands of cubes)", false, "alphabet functions incl. parity/majority/irregular tables, each recurring up to 3 times", |l| {
        for n in [8usize, 10] {
            let pats = alpha::word_patterns(n, run.seed, 0);
            let named = alpha::named(n);
            let base: Vec<TT> = vec![pats[pats.len() - 1].clone(), named[n + 2].clone(), pats[pats.len() - 2].clone(), named[n + 5].clone(), pats[4].clone()];
            let order = [0usize, 1, 2, 0, 3, 1, 4, 0, 2, 3, 1, 4, 2, 0, 3, 4];
            let fs: Vec<TT> = order.iter().take(if n == 8 { 16 } else { 12 }).map(|i| base[*i].clone()).collect();
            l.states += fs.len() as u64;
            let case = format!("kind=chain;n={};fs={}", n, fs.iter().map(|f| fmt_words(&f.w)).collect::<Vec<_>>().join(","));
            rec(l, check_chain(n, &fs), format!("{:02}|chain", n), "long-chain", case, true, n as u64);
        }
    });
    run.section_seq("CONSTANTS n=0..10 and canonical forms XORed together (n<=4 alphabet)", false, "zero/one/literals; Esop::from(f) ^ Esop::from(g) for alphabet pairs", |l| {
        for n in 0..=10usize {
            l.states += 1;
            rec(l, check_consts(n), format!("{:02}|consts", n), "consts", format!("kind=consts;n={}", n), true, n as u64);
        }
        for n in 1..=6usize {
            let fam = alpha::family_capped(n, run.seed, 0, 400);
            for (i, f) in fam.iter().enumerate() {
                let g = &fam[(i * 7 + 1) % fam.len()];
                // canonical forms as operands: keys from the ANF by definition
                let ka: Key = (0..nbits(n)).filter(|s| anf_coeff(f, *s)).map(|s| (s as u32, 0)).collect();
                let kb: Key = (0..nbits(n)).filter(|s| anf_coeff(g, *s)).map(|s| (s as u32, 0)).collect();
                l.states += 1;
                rec(l, check_ops(n, &ka, &kb), format!("{:02}|ops|{}|{}", n, show_key(&ka), show_key(&kb)), "operators", format!("kind=ops;n={};a={};b={}", n, show_key(&ka), show_key(&kb)), true, i as u64);
            }
        }
    });
    run.section_seq("CLONE_FROM Esop: every ordered pair of sizes 0..=8 x cube lists", false, "destination over m variables (3 cube lists) overwritten from a source over n variables (4 cube lists): size, cubes, table, then !, ^", |l| {
        let srcs: Vec<Key> = vec![vec![], vec![(0, 0)], vec![(0b1, 0b10), (0b100, 0), (0b1, 0b10)], vec![(0b11, 0), (0b10000000, 0b101), (0b10000, 0b1)]];
        let dsts: Vec<Key> = vec![vec![], vec![(0, 0)], vec![(0b1, 0), (0b10, 0b1), (0, 0b100)]];
        for n in 0..=8usize {
            for m in 0..=8usize {
                for a in &srcs {
                    for b in &dsts {
                        let (a2, b2) = (mask_key(a, n), mask_key(b, m));
                        l.states += 1;
                        rec(l, check_clone_from(n, m, &a2, &b2), format!("clonefrom|{}|{}|{}|{}", n, m, show_key(&a2), show_key(&b2)), "clone_from", format!("kind=clonefrom;n={};m={};a={};b={}", n, m, show_key(&a2), show_key(&b2)), n != m, (n * 100 + m) as u64);
                    }
                }
            }
        }
    });
    let th = run.thorough();
    super::xsize::run_tours(run, "C15", "sizes (Esop::from(&lut) compared cube by cube, ^, !, Lut::from at every ordered pair of sizes consecutively)", "sizes 0..=10 (thorough 11); results must not depend on what was converted before on the thread", if th { 12 } else { 11 }, &|k| tour("sizes", k, th).unwrap());
}
