//! C12 — cube algebra: evaluation, conjunction, implication and intersection are semantic.

use super::common::*;
use crate::engine::json::J;
use crate::engine::{fmt_words, guarded, Case, Local, Run};
use crate::model::cube::{assignments, sem_equal, sem_implies, sem_intersects, CubeM};
use crate::model::tt::{nbits, TT};
use std::collections::BTreeSet;
use volute::sop::Cube;
use volute::Lut;

pub fn abs_cube(c: &Cube) -> CubeM {
    CubeM { pos: c.pos_vars().collect(), neg: c.neg_vars().collect() }
}

/// The subject cube `c` must be the canonical representation of the model cube `m`, and all
/// its observers must agree with the semantics.
pub fn check_cube(what: &str, c: &Cube, m: &CubeM) -> Verdict {
    if m.contradictory() {
        if *c != Cube::zero() || !c.is_zero() {
            return fail(format!("{}: the canonical zero cube (the result is contradictory)", what), format!("{:?}", c));
        }
    } else {
        let a = abs_cube(c);
        if a != *m {
            return fail(format!("{}: literals +{:?} -{:?}", what, m.pos, m.neg), format!("{:?} (+{:?} -{:?})", c, a.pos, a.neg));
        }
    }
    // value on the support x background
    let mut sup = m.support();
    if m.contradictory() {
        sup = sup.into_iter().take(4).collect();
    }
    // backgrounds: all other variables 0, all 1, and the assignment satisfying the cube
    let sat = m.pos.iter().fold(0u64, |a, v| a | (1u64 << v));
    for bg in [0u64, 0xffff_ffff, sat] {
        for asg in assignments(&sup, bg) {
            let want = m.value(asg);
            let got = c.value(asg as usize);
            if got != want {
                return fail(format!("{}: value({:#x}) = {}", what, asg, want), format!("{} ({:?})", got, c));
            }
        }
    }
    let z = m.contradictory();
    let one = !z && m.pos.is_empty() && m.neg.is_empty();
    if c.is_zero() != z || c.is_one() != one || c.is_constant() != (z || one) {
        return fail(format!("{}: is_zero={} is_one={} is_constant={}", what, z, one, z || one), format!("{} {} {}", c.is_zero(), c.is_one(), c.is_constant()));
    }
    let nl = m.num_lits();
    if c.num_lits() != nl || c.num_gates() != std::cmp::max(nl, 1) - 1 {
        return fail(format!("{}: num_lits={} num_gates={}", what, nl, std::cmp::max(nl, 1) - 1), format!("{} {}", c.num_lits(), c.num_gates()));
    }
    if !z {
        let pv: Vec<usize> = c.pos_vars().collect();
        let nv: Vec<usize> = c.neg_vars().collect();
        if pv != m.pos.iter().copied().collect::<Vec<_>>() || nv != m.neg.iter().copied().collect::<Vec<_>>() {
            return fail(format!("{}: pos_vars {:?} neg_vars {:?} in increasing order", what, m.pos, m.neg), format!("{:?} {:?}", pv, nv));
        }
    }
    Ok(())
}

fn check_single(pos: u32, neg: u32) -> Verdict {
    let m = CubeM::from_masks(pos, neg);
    match guarded(|| {
        let c = Cube::from_mask(pos, neg);
        check_cube(&format!("from_mask({:#x},{:#x})", pos, neg), &c, &m)
    }) {
        Ok(v) => v,
        Err(p) => fail("from_mask and the observers return", p),
    }
}

fn check_pair(pa: u32, na: u32, pb: u32, nb: u32) -> Verdict {
    let (ma, mb) = (CubeM::from_masks(pa, na), CubeM::from_masks(pb, nb));
    let r = guarded(|| {
        let a = Cube::from_mask(pa, na);
        let b = Cube::from_mask(pb, nb);
        let mand = ma.and(&mb);
        let forms: [Cube; 4] = [a & b, &a & b, &a & &b, a & &b];
        check_cube("a & b", &forms[0], &mand)?;
        for (k, f) in forms.iter().enumerate().skip(1) {
            // the other syntactic forms: same canonical cube (bit-identical and equal)
            if *f != forms[0] || f.is_zero() != forms[0].is_zero() || f.num_lits() != forms[0].num_lits() {
                return fail(format!("all forms of & agree (form {} vs form 0)", k), format!("{:?} vs {:?}", f, forms[0]));
            }
            if mand.contradictory() && *f != Cube::zero() {
                return fail(format!("a & b (form {}): the canonical zero cube", k), format!("{:?}", f));
            }
        }
        let imp = sem_implies(&ma, &mb);
        if a.implies(b) != imp {
            return fail(format!("a.implies(b) = {} (every assignment satisfying a satisfies b)", imp), format!("{}", a.implies(b)));
        }
        let int = sem_intersects(&ma, &mb);
        if a.intersects(b) != int {
            return fail(format!("a.intersects(b) = {} (some assignment satisfies both)", int), format!("{}", a.intersects(b)));
        }
        let eq = sem_equal(&ma, &mb);
        if (a == b) != eq {
            return fail(format!("a == b is {} (semantic equality)", eq), format!("{}", a == b));
        }
        Ok(())
    });
    match r {
        Ok(v) => v,
        Err(p) => fail("&, implies, intersects, == return", p),
    }
}

fn check_minterm(nv: usize, m: usize) -> Verdict {
    // the cube true exactly on the assignment m of the first nv variables
    let model = CubeM { pos: (0..nv).filter(|v| (m >> v) & 1 == 1).collect(), neg: (0..nv).filter(|v| (m >> v) & 1 == 0).collect() };
    match guarded(|| {
        let c = Cube::minterm(nv, m);
        check_cube(&format!("minterm({}, {:#x})", nv, m), &c, &model)
    }) {
        Ok(v) => v,
        Err(p) => fail(format!("minterm({}, {:#x}) returns the cube +{:?} -{:?}", nv, m, model.pos, model.neg), p),
    }
}

fn check_from_vars(p: &[usize], q: &[usize]) -> Verdict {
    let model = CubeM::from_lits(p, q);
    match guarded(|| {
        let c = Cube::from_vars(p, q);
        check_cube(&format!("from_vars({:?},{:?})", p, q), &c, &model)
    }) {
        Ok(v) => v,
        Err(e) => fail("from_vars returns", e),
    }
}

fn check_literal(v: usize) -> Verdict {
    match guarded(|| {
        check_cube(&format!("nth_var({})", v), &Cube::nth_var(v), &CubeM::from_lits(&[v], &[]))?;
        check_cube(&format!("nth_var_inv({})", v), &Cube::nth_var_inv(v), &CubeM::from_lits(&[], &[v]))?;
        check_cube("one()", &Cube::one(), &CubeM::one())?;
        check_cube("zero()", &Cube::zero(), &CubeM::from_lits(&[0], &[0]))
    }) {
        Ok(v) => v,
        Err(p) => fail("literal constructors return", p),
    }
}

fn check_all(n: usize) -> Verdict {
    let r = guarded(|| Cube::all(n).collect::<Vec<Cube>>());
    match r {
        Err(p) => fail("Cube::all returns", p),
        Ok(v) => {
            let want = 3usize.pow(n as u32);
            if v.len() != want {
                return fail(format!("Cube::all({}) yields 3^n = {} cubes", n, want), format!("{}", v.len()));
            }
            let mut set: BTreeSet<CubeM> = BTreeSet::new();
            for c in &v {
                let a = abs_cube(c);
                if a.contradictory() || c.is_zero() {
                    return fail("no zero cube in Cube::all", format!("{:?}", c));
                }
                if a.support().iter().any(|x| *x >= n) {
                    return fail(format!("cubes over variables 0..{}", n), format!("{:?}", c));
                }
                if !set.insert(a) {
                    return fail("pairwise distinct cubes", format!("{:?} twice", c));
                }
            }
            // the model's set: every (pos, neg) with disjoint supports
            let mut cnt = 0;
            for pos in 0..(1u32 << n) {
                for neg in 0..(1u32 << n) {
                    if pos & neg == 0 {
                        cnt += 1;
                        if !set.contains(&CubeM::from_masks(pos, neg)) {
                            return fail("every non-contradictory cube present", format!("+{:#x} -{:#x} missing", pos, neg));
                        }
                    }
                }
            }
            if cnt != want {
                return Err(("harness".into(), "model cube count".into()));
            }
            Ok(())
        }
    }
}

fn check_implies_lut(n: usize, t: &TT, pos: u32, neg: u32) -> Verdict {
    let m = CubeM::from_masks(pos, neg);
    let want = (0..nbits(n)).all(|a| !m.value(a as u64) || t.get(a));
    match guarded(|| Cube::from_mask(pos, neg).implies_lut(&Lut::from_blocks(n, &t.w))) {
        Err(p) => fail(format!("implies_lut = {}", want), p),
        Ok(g) => {
            if g != want {
                fail(format!("implies_lut = {} (the cube is{} an implicant)", want, if want { "" } else { " not" }), format!("{}", g))
            } else {
                Ok(())
            }
        }
    }
}

pub fn replay(case: &Case) -> Result<Verdict, String> {
    let h = |k: &str| -> Result<u32, String> { u32::from_str_radix(case.get(k)?, 16).map_err(|e| e.to_string()) };
    let list = |k: &str| -> Result<Vec<usize>, String> { case.get(k)?.split('.').filter(|s| !s.is_empty()).map(|s| s.parse::<usize>().map_err(|e| e.to_string())).collect() };
    if case.get("kind")? == "tour" {
        return super::xsize::replay(case, &tour);
    }
    Ok(match case.get("kind")? {
        "single" => check_single(h("pa")?, h("na")?),
        "pair" => check_pair(h("pa")?, h("na")?, h("pb")?, h("nb")?),
        "minterm" => check_minterm(case.usize("nv")?, case.usize("m")?),
        "fromvars" => check_from_vars(&list("p")?, &list("q")?),
        "literal" => check_literal(case.usize("v")?),
        "all" => check_all(case.usize("n")?),
        "implies_lut" => {
            let n = case.usize("n")?;
            check_implies_lut(n, &TT::from_words(n, &case.words("t")?).ok_or("t malformed")?, h("pa")?, h("na")?)
        }
        k => return Err(format!("unknown kind {}", k)),
    })
}

fn rec(l: &mut Local, v: Verdict, key: String, sig: &str, case: String, nontrivial: bool, h: u64) {
    l.transitions += 1;
    l.validated += 1;
    match v {
        Ok(()) => {
            l.digest ^= crate::engine::mix(h);
            l.nontrivial += nontrivial as u64;
        }
        Err(e) => l.violation(key, &format!("C12/{}", sig), case, e.0, e.1),
    }
}

/// One tour: the enumeration and implies_lut at every ordered pair of sizes consecutively.
pub fn tour(which: &str, k: usize, _thorough: bool) -> Result<super::xsize::Tour, String> {
    if which != "sizes" || k != 0 {
        return Err("no such tour".into());
    }
    let mut t = super::xsize::Tour::new("sizes:0");
    let sizes: Vec<usize> = (0..=6).collect();
    for s in super::xsize::size_pairs(&sizes) {
        t.push(format!("Cube::all({})", s), move || check_all(s));
        let tab = TT::from_fn(s, |m| crate::model::alpha::popcount(m) % 3 != 1);
        t.push(format!("implies_lut n={}", s), move || check_implies_lut(s, &tab, if s > 0 { 1 } else { 0 }, if s > 1 { 2 } else { 0 }));
    }
    Ok(t)
}

pub fn run(run: &Run) {
    if let Err(e) = crate::model::cube::self_check() {
        run.machinery(format!("cube model self-check: {}", e));
        return;
    }
    run.set_rule("state = a cube (or an ordered pair of cubes); transitions = constructors, &, implies, intersects, ==, value, implies_lut, counters, enumeration; non-trivial = a non-constant cube / a pair of distinct cubes");
    run.assume("reference model: a cube is a set of literals evaluated by definition; implication/intersection/equality by enumerating the assignments of the joint support (model::cube)");
    let n = 5u32;
    let size = 1u64 << (2 * n);
    run.section("SINGLE all (pos,neg) masks over 5 variables incl. contradictory: from_mask, value, counters, flags", true, "complete: all 1024 mask pairs (244 distinct cubes), all assignments x two backgrounds", size, 16, |r, l| {
        for idx in r {
            let (p, q) = ((idx >> n) as u32, (idx & ((1 << n) - 1)) as u32);
            l.states += 1;
            rec(l, check_single(p, q), format!("single|{:03x}|{:03x}", p, q), "single", format!("kind=single;pa={:x};na={:x}", p, q), p | q != 0 && p & q == 0, idx);
            if idx == size / 2 {
                l.sample(J::s(format!("kind=single;pa={:x};na={:x}", p, q)));
            }
        }
    });
    run.section("PAIRS all ordered pairs of mask pairs over 5 variables: & (4 forms), implies, intersects, ==", true, "complete: 1024 x 1024 ordered pairs (covers all 59536 ordered pairs of distinct cubes and every contradictory operand)", size * size, 4096, |r, l| {
        for idx in r {
            let (a, b) = (idx / size, idx % size);
            let (pa, na, pb, nb) = ((a >> n) as u32, (a & 31) as u32, (b >> n) as u32, (b & 31) as u32);
            l.states += 1;
            rec(l, check_pair(pa, na, pb, nb), format!("pair|{:03x}|{:03x}|{:03x}|{:03x}", pa, na, pb, nb), "pair", format!("kind=pair;pa={:x};na={:x};pb={:x};nb={:x}", pa, na, pb, nb), a != b, idx);
            if idx == size * size / 3 {
                l.sample(J::s(format!("kind=pair;pa={:x};na={:x};pb={:x};nb={:x}", pa, na, pb, nb)));
            }
        }
    });
    // constructors
    run.section_seq("CONSTRUCTORS nth_var/nth_var_inv for every variable 0..31, one, zero", true, "complete", |l| {
        for v in 0..32usize {
            l.states += 1;
            rec(l, check_literal(v), format!("literal|{:02}", v), "literal", format!("kind=literal;v={}", v), true, v as u64);
        }
    });
    run.section_seq("CONSTRUCTORS minterm(n, m): n in 0..=5 all m; n in {6,8,16,31,32} boundary m", false, "all minterms for n<=5 (incl. m with bits above n), boundary assignments for wide cubes", |l| {
        let mut list: Vec<(usize, usize)> = Vec::new();
        for nv in 0..=5usize {
            for m in 0..(1usize << nv) {
                list.push((nv, m));
                list.push((nv, m | (1 << nv)));
                list.push((nv, m | (0xffff_ff00usize << nv)));
            }
        }
        for nv in [6usize, 8, 16, 30, 31, 32] {
            let top = if nv == 32 { 0xffff_ffffusize } else { (1usize << nv) - 1 };
            for m in [0usize, 1, 2, top, top - 1, top / 3, top / 3 * 2, 1 << (nv - 1), (1usize << (nv - 1)) - 1, 0xdead_beef & top] {
                list.push((nv, m));
            }
        }
        for (nv, m) in list {
            l.states += 1;
            rec(l, check_minterm(nv, m), format!("minterm|{:02}|{:010x}", nv, m), if nv >= 32 { "minterm/32-variables" } else { "minterm" }, format!("kind=minterm;nv={};m={}", nv, m), nv > 0, (nv * 7919 + m) as u64);
        }
        l.sample(J::s("kind=minterm;nv=32;m=4294967295"));
    });
    run.section_seq("CONSTRUCTORS from_vars: all literal lists of total length <= 3 over variables 0..4 (with repeats) + wide", true, "complete for lists of length <= 3 over 5 variables, positive and negative", |l| {
        let vars: Vec<usize> = (0..5).collect();
        let mut lists: Vec<Vec<usize>> = vec![vec![]];
        for a in &vars {
            lists.push(vec![*a]);
            for b in &vars {
                lists.push(vec![*a, *b]);
                for c in &vars {
                    lists.push(vec![*a, *b, *c]);
                }
            }
        }
        for p in &lists {
            for q in &lists {
                if p.len() + q.len() <= 3 {
                    l.states += 1;
                    let j = |v: &Vec<usize>| v.iter().map(|x| x.to_string()).collect::<Vec<_>>().join(".");
                    rec(l, check_from_vars(p, q), format!("fromvars|{}|{}", j(p), j(q)), "from_vars", format!("kind=fromvars;p={};q={}", j(p), j(q)), true, (p.len() * 31 + q.len()) as u64);
                }
            }
        }
        for (p, q) in [(vec![31usize], vec![30usize]), (vec![31, 0], vec![]), (vec![31], vec![31]), (vec![], vec![31, 16, 0])] {
            l.states += 1;
            let j = |v: &Vec<usize>| v.iter().map(|x| x.to_string()).collect::<Vec<_>>().join(".");
            rec(l, check_from_vars(&p, &q), format!("fromvars|{}|{}", j(&p), j(&q)), "from_vars", format!("kind=fromvars;p={};q={}", j(&p), j(&q)), true, 7);
        }
    });
    run.section_seq("ENUMERATION Cube::all(n), n = 0..7: 3^n distinct non-zero cubes, equal as a set to the model's", true, "complete", |l| {
        for k in 0..=7usize {
            l.states += 3u64.pow(k as u32);
            rec(l, check_all(k), format!("all|{}", k), "all", format!("kind=all;n={}", k), true, k as u64);
        }
    });
    // implies_lut
    for k in 0..=4usize {
        let size = 1u64 << nbits(k);
        let masks: Vec<(u32, u32)> = (0..(1u32 << k)).flat_map(|p| (0..(1u32 << k)).map(move |q| (p, q))).collect();
        let complete = k <= 3 || run.thorough();
        let tables: Vec<u64> = if complete { (0..size).collect() } else { crate::model::alpha::family(k, run.seed, 2).iter().map(|t| t.w[0]).collect() };
        run.section(&format!("IMPLIES_LUT n={}: {} tables x all {} mask pairs (incl. contradictory)", k, tables.len(), masks.len()), complete, if complete { "complete: every function x every cube" } else { "the 4-variable alphabet (all functions in the thorough tier)" }, tables.len() as u64, 16, |r, l| {
            for i in r {
                let t = TT::from_u64(k, tables[i as usize]);
                for (p, q) in &masks {
                    l.states += 1;
                    rec(l, check_implies_lut(k, &t, *p, *q), format!("implut|{}|{:x}|{:x}|{:x}", k, t.w[0], p, q), "implies_lut", format!("kind=implies_lut;n={};t={};pa={:x};na={:x}", k, fmt_words(&t.w), p, q), p & q == 0, t.w[0] ^ ((*p as u64) << 40) ^ ((*q as u64) << 50));
                }
            }
        });
    }
    // implies_lut on multi-word tables: cubes with literals on the high variables, functions
    // that are the cube itself, near-implicants (the cube minus one point) and alphabet tables
    for k in 6..=9usize {
        let mut masks: Vec<(u32, u32)> = vec![(0, 0)];
        let hi: Vec<u32> = (0..k as u32).filter(|v| *v >= 4).collect();
        for (i, a) in hi.iter().enumerate() {
            for pa in [true, false] {
                let la = if pa { (1u32 << a, 0u32) } else { (0u32, 1u32 << a) };
                masks.push(la);
                masks.push((la.0 | 1, la.1));
                for b in hi.iter().skip(i + 1) {
                    for pb in [true, false] {
                        let lb = if pb { (1u32 << b, 0u32) } else { (0u32, 1u32 << b) };
                        masks.push((la.0 | lb.0, la.1 | lb.1));
                        masks.push((la.0 | lb.0, la.1 | lb.1 | 2));
                    }
                }
            }
        }
        masks.sort();
        masks.dedup();
        let pats = crate::model::alpha::word_patterns(k, run.seed, 0);
        let nm = masks.len() as u64;
        run.section(&format!("IMPLIES_LUT n={}: {} cubes with literals on the high variables x (cube function, every one-point removal at block boundaries, one-point additions, alphabet tables)", k, nm), false, "cubes over variables >= 4 (one or two literals, optionally a low literal); functions: the cube itself, near-implicants, supersets, irregular tables", nm, 1, |r, l| {
            for i in r {
                let (p, q) = masks[i as usize];
                let m = CubeM::from_masks(p, q);
                let f = TT::from_fn(k, |a| m.value(a as u64));
                let mut tables: Vec<TT> = vec![f.clone(), f.not(), TT::zero(k).not(), TT::zero(k)];
                let nb = nbits(k);
                let mut pts: Vec<usize> = vec![0, 1, 63, 64, 65, 127, 128, 129, 191, 192, 255, 256, (nb / 2).wrapping_sub(1), nb / 2, nb.wrapping_sub(65), nb.wrapping_sub(64), nb - 1];
                pts.retain(|x| *x < nb);
                for a in pts {
                    let mut g = f.clone();
                    g.set(a, !f.get(a));
                    tables.push(g);
                }
                tables.extend(pats.iter().rev().take(3).cloned());
                for t in &tables {
                    l.states += 1;
                    rec(l, check_implies_lut(k, t, p, q), format!("implut|{}|{:x}|{:x}|{}", k, p, q, fmt_words(&t.w)), "implies_lut", format!("kind=implies_lut;n={};t={};pa={:x};na={:x}", k, fmt_words(&t.w), p, q), true, i);
                }
            }
        });
    }
    // up to 32 variables: every cube with <= 2 literals, all ordered pairs of those
    let mut lits: Vec<(u32, u32)> = vec![(0, 0)];
    for v in 0..32 {
        lits.push((1 << v, 0));
        lits.push((0, 1 << v));
    }
    let mut two: Vec<(u32, u32)> = lits.clone();
    for i in 1..lits.len() {
        for j in (i + 1)..lits.len() {
            two.push((lits[i].0 | lits[j].0, lits[i].1 | lits[j].1));
        }
    }
    let nt = two.len() as u64;
    run.section(&format!("WIDE all {} cubes with <= 2 literals over variables 0..31 (incl. contradictory): single checks", nt), false, "every cube with at most two literals over 32 variables", nt, 16, |r, l| {
        for i in r {
            let (p, q) = two[i as usize];
            l.states += 1;
            rec(l, check_single(p, q), format!("single|{:08x}|{:08x}", p, q), "single", format!("kind=single;pa={:x};na={:x}", p, q), true, i);
        }
    });
    let stride = if run.thorough() { 1 } else { 7 };
    run.section(&format!("WIDE ordered pairs of <=2-literal cubes over 32 variables (second operand every {}th)", stride), false, "pairs of two-literal cubes anywhere in the 32 variables; assignments over the joint support x two backgrounds", nt, 1, |r, l| {
        for i in r {
            let (pa, na) = two[i as usize];
            let mut j = (i % stride) as usize;
            while j < two.len() {
                let (pb, nb) = two[j];
                l.states += 1;
                rec(l, check_pair(pa, na, pb, nb), format!("pair|{:08x}|{:08x}|{:08x}|{:08x}", pa, na, pb, nb), "pair", format!("kind=pair;pa={:x};na={:x};pb={:x};nb={:x}", pa, na, pb, nb), true, i * nt + j as u64);
                j += stride as usize;
            }
        }
    });
    // every 3-variable cube shifted to every offset
    run.section_seq("WIDE every 3-variable cube (27) at every offset 0..=29, pairs within the window", false, "all 27 x 27 pairs per offset", |l| {
        for off in 0..=29u32 {
            let mut cs: Vec<(u32, u32)> = Vec::new();
            for p in 0..8u32 {
                for q in 0..8u32 {
                    if p & q == 0 {
                        cs.push((p << off, q << off));
                    }
                }
            }
            for a in &cs {
                l.states += 1;
                rec(l, check_single(a.0, a.1), format!("single|{:08x}|{:08x}", a.0, a.1), "single", format!("kind=single;pa={:x};na={:x}", a.0, a.1), true, off as u64);
                for b in &cs {
                    l.states += 1;
                    rec(l, check_pair(a.0, a.1, b.0, b.1), format!("pair|{:08x}|{:08x}|{:08x}|{:08x}", a.0, a.1, b.0, b.1), "pair", format!("kind=pair;pa={:x};na={:x};pb={:x};nb={:x}", a.0, a.1, b.0, b.1), true, off as u64 + 1000);
                }
            }
        }
    });
    super::xsize::run_tours(run, "C12", "sizes (Cube::all(n) and implies_lut at every ordered pair of sizes 0..=6 consecutively)", "the enumeration must be the 3^n cubes over variables 0..n whatever was enumerated before on the thread", 1, &|k| tour("sizes", k, false).unwrap());
}
