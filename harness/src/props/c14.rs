//! C14 — Sop operations preserve meaning and return containment-irredundant covers.
//!
//! State: a Sop (its cube list). Initial states: zero, one, literals, from_cubes on redundant
//! lists, Sop::from(&lut). Transitions: & and | (4 forms each), ! (2 forms), Lut::from, value.
//! Oracle: the denoted function (cubes evaluated by the cube model) is the AND/OR/complement
//! of the operands' functions; the result has no contradictory cube, no duplicate and no cube
//! implying another (semantic implication); is_zero <=> constant zero, is_one => constant one.
//! REACH to a fixpoint for n <= 3 with saturation of the binary operations.

use super::c12::abs_cube;
use super::common::*;
use crate::engine::json::J;
use crate::engine::{fmt_words, guarded, Case, Local, Run};
use crate::model::cube::{sem_implies, CubeM};
use crate::model::tt::{nbits, TT};
use std::collections::HashMap;
use volute::sop::{Cube, Sop};
use volute::Lut;

type Key = Vec<(u32, u32)>;

fn key_of(s: &Sop) -> Key {
    s.cubes().iter().map(|c| (c.pos_vars().fold(0u32, |a, v| a | (1 << v)), c.neg_vars().fold(0u32, |a, v| a | (1 << v)))).collect()
}

fn sop_of(n: usize, k: &Key) -> Sop {
    Sop::from_cubes(n, k.iter().map(|(p, q)| Cube::from_mask(*p, *q)).collect())
}

fn denote_key(n: usize, k: &Key) -> TT {
    let ms: Vec<CubeM> = k.iter().map(|(p, q)| CubeM::from_masks(*p, *q)).collect();
    TT::from_fn(n, |m| ms.iter().any(|c| c.value(m as u64)))
}

fn show_key(k: &Key) -> String {
    k.iter().map(|(p, q)| format!("{:x}/{:x}", p, q)).collect::<Vec<_>>().join(",")
}

fn parse_key(s: &str) -> Result<Key, String> {
    s.split(',').filter(|x| !x.is_empty()).map(|x| {
        let (p, q) = x.split_once('/').ok_or("bad cube")?;
        Ok((u32::from_str_radix(p, 16).map_err(|e| e.to_string())?, u32::from_str_radix(q, 16).map_err(|e| e.to_string())?))
    }).collect()
}

/// Any Sop (also one built from a redundant cube list): it denotes f by its cubes, by value()
/// and by Lut::from.
fn check_denotes(what: &str, n: usize, s: &Sop, f: &TT) -> Verdict {
    if s.num_vars() != n {
        return fail(format!("{}: num_vars = {}", what, n), format!("{}", s.num_vars()));
    }
    let ms: Vec<CubeM> = s.cubes().iter().map(abs_cube).collect();
    for m in 0..nbits(n) {
        let by_cubes = ms.iter().any(|c| c.value(m as u64));
        if by_cubes != f.get(m) {
            return fail(format!("{}: denotes [{}] (value {} on assignment {})", what, fmt_words(&f.w), f.get(m), m), format!("{} (value {})", s, by_cubes));
        }
        if s.value(m) != by_cubes {
            return fail(format!("{}: value({}) = {} (OR of its cubes)", what, m, by_cubes), format!("{}", s.value(m)));
        }
    }
    let l1 = Lut::from(s);
    if l1.num_vars() != n || l1.blocks() != &f.w[..] {
        return fail(format!("{}: Lut::from gives [{}]", what, fmt_words(&f.w)), format!("{}", l1));
    }
    Ok(())
}

/// A result of an operation: the right function, and a containment-irredundant cover.
fn check_result(what: &str, n: usize, s: &Sop, f: &TT) -> Verdict {
    if s.num_vars() != n {
        return fail(format!("{}: num_vars = {}", what, n), format!("{}", s.num_vars()));
    }
    let ms: Vec<CubeM> = s.cubes().iter().map(abs_cube).collect();
    for m in 0..nbits(n) {
        let by_cubes = ms.iter().any(|c| c.value(m as u64));
        if by_cubes != f.get(m) {
            return fail(format!("{}: denotes [{}] (value {} on assignment {})", what, fmt_words(&f.w), f.get(m), m), format!("{} (value {})", s, by_cubes));
        }
        if s.value(m) != by_cubes {
            return fail(format!("{}: value({}) = {} (OR of its cubes)", what, m, by_cubes), format!("{}", s.value(m)));
        }
    }
    let l1 = Lut::from(s);
    let l2 = Lut::from(s.clone());
    if l1.num_vars() != n || l1.blocks() != &f.w[..] || l2 != l1 {
        return fail(format!("{}: Lut::from gives [{}]", what, fmt_words(&f.w)), format!("{}", l1));
    }
    for (i, c) in ms.iter().enumerate() {
        if c.contradictory() || s.cubes()[i].is_zero() {
            return fail(format!("{}: no contradictory cube in the result", what), format!("{}", s));
        }
        if c.support().iter().any(|v| *v >= n) {
            return fail(format!("{}: cubes over variables 0..{}", what, n), format!("{}", s));
        }
        for (j, d) in ms.iter().enumerate() {
            if i != j && c == d {
                return fail(format!("{}: no duplicate cube in the result", what), format!("{}", s));
            }
            if i != j && sem_implies(c, d) {
                return fail(format!("{}: no cube implying another cube of the result", what), format!("{} (cube {} implies cube {})", s, s.cubes()[i], s.cubes()[j]));
            }
        }
    }
    let zero = f.is_const(false);
    if s.is_zero() != zero {
        return fail(format!("{}: is_zero = {} (exactly for the constant-zero function)", what, zero), format!("{} on {}", s.is_zero(), s));
    }
    if s.is_one() && !f.is_const(true) {
        return fail(format!("{}: is_one only for constant one", what), format!("is_one on {}", s));
    }
    let lits: usize = ms.iter().map(|c| c.num_lits()).sum();
    if s.num_cubes() != ms.len() || s.num_lits() != lits {
        return fail(format!("{}: num_cubes = {}, num_lits = {}", what, ms.len(), lits), format!("{} {}", s.num_cubes(), s.num_lits()));
    }
    Ok(())
}

/// op: "and" | "or" | "not"; all syntactic forms must agree. Returns the result key.
fn check_op(n: usize, a: &Key, b: &Key, op: &str) -> Result<Key, (String, String)> {
    let (fa, fb) = (denote_key(n, a), denote_key(n, b));
    let r = guarded(|| {
        let sa = sop_of(n, a);
        let sb = sop_of(n, b);
        // operands: whatever cubes they were built from, value and Lut::from must denote them
        for m in 0..nbits(n) {
            if sa.value(m) != fa.get(m) {
                return fail(format!("operand value({}) = {}", m, fa.get(m)), format!("{}", sa.value(m)));
            }
        }
        let (forms, f): (Vec<Sop>, TT) = match op {
            "and" => (vec![sa.clone() & sb.clone(), &sa & sb.clone(), &sa & &sb, sa.clone() & &sb], TT::pointwise(&fa, &fb, |x, y| x && y)),
            "or" => (vec![sa.clone() | sb.clone(), &sa | sb.clone(), &sa | &sb, sa.clone() | &sb], TT::pointwise(&fa, &fb, |x, y| x || y)),
            _ => (vec![!sa.clone(), !&sa], fa.not()),
        };
        check_result(op, n, &forms[0], &f)?;
        for s in forms.iter().skip(1) {
            if *s != forms[0] {
                return fail(format!("all forms of {} agree", op), format!("{} vs {}", s, forms[0]));
            }
        }
        // both operands the SAME object: `&a & &a`, `&a | &a` are results of an operation too
        // (a, whatever cubes it was built from: irredundant cover of the same function)
        // (every 4th case by a hash of the operands: each operand recurs in many cases)
        if op != "not" && (a.iter().chain(b.iter()).fold(a.len() as u32 * 31 + b.len() as u32, |h, (p, q)| h.wrapping_mul(1_000_003) ^ p ^ (q << 7)) % 4 == 0 || a == b) {
            check_result("&a & &a (both operands the same object)", n, &(&sa & &sa), &fa)?;
            check_result("&a | &a (both operands the same object)", n, &(&sa | &sa), &fa)?;
        }
        if key_of(&sa) != *a || key_of(&sb) != *b {
            return fail("operands unchanged", format!("{} / {}", sa, sb));
        }
        Ok(key_of(&forms[0]))
    });
    match r {
        Ok(v) => v,
        Err(p) => fail(format!("{} returns", op), p),
    }
}

fn check_from_lut(n: usize, t: &TT) -> Verdict {
    let r = guarded(|| {
        let l = Lut::from_blocks(n, &t.w);
        let s1 = Sop::from(&l);
        let s2 = Sop::from(l.clone());
        if s1 != s2 {
            return fail("Sop::from(&lut) == Sop::from(lut)", format!("{} vs {}", s1, s2));
        }
        // the minterm cover: exactly one minterm cube per true assignment
        let want: Vec<CubeM> = (0..nbits(n)).filter(|m| t.get(*m)).map(|m| CubeM { pos: (0..n).filter(|v| (m >> v) & 1 == 1).collect(), neg: (0..n).filter(|v| (m >> v) & 1 == 0).collect() }).collect();
        let mut got: Vec<CubeM> = s1.cubes().iter().map(abs_cube).collect();
        let mut w2 = want.clone();
        got.sort();
        w2.sort();
        if got != w2 {
            return fail(format!("the minterm cover of [{}] ({} minterms)", fmt_words(&t.w), want.len()), format!("{}", s1));
        }
        let back = Lut::from(&s1);
        if back != l {
            return fail("converting back is the identity", format!("{}", back));
        }
        check_result("Sop::from(&lut)", n, &s1, t)
    });
    match r {
        Ok(v) => v,
        Err(p) => fail("Lut <-> Sop conversions return", p),
    }
}

fn check_consts(n: usize) -> Verdict {
    match guarded(|| {
        check_result("Sop::zero", n, &Sop::zero(n), &TT::zero(n))?;
        check_result("Sop::one", n, &Sop::one(n), &TT::zero(n).not())?;
        if !Sop::one(n).is_one() {
            return fail("Sop::one().is_one()", "false");
        }
        for v in 0..n {
            check_result("Sop::nth_var", n, &Sop::nth_var(n, v), &TT::from_fn(n, |m| (m >> v) & 1 == 1))?;
            check_result("Sop::nth_var_inv", n, &Sop::nth_var_inv(n, v), &TT::from_fn(n, |m| (m >> v) & 1 == 0))?;
        }
        Ok(())
    }) {
        Ok(v) => v,
        Err(p) => fail("Sop constants return", p),
    }
}

/// `d.clone_from(&s)`: d an existing Sop over m variables (cubes b), s over n variables
/// (cubes a). Afterwards d is s: same size, cubes, function; and it behaves as s in !, &, |.
fn check_clone_from(n: usize, m: usize, a: &Key, b: &Key) -> Verdict {
    let fa = denote_key(n, a);
    let r = guarded(|| {
        let s = sop_of(n, a);
        let mut d = sop_of(m, b);
        d.clone_from(&s);
        check_denotes("after clone_from", n, &d, &fa)?;
        if d != s || key_of(&d) != key_of(&s) {
            return fail("after clone_from: equal to the source", format!("{} vs {}", d, s));
        }
        let l = Lut::from(&d);
        if l.num_vars() != n || l.blocks() != &fa.w[..] {
            return fail(format!("after clone_from: Lut::from = [{}] over {} variables", fmt_words(&fa.w), n), format!("n={} [{}]", l.num_vars(), fmt_words(l.blocks())));
        }
        check_result("!d after clone_from", n, &!&d, &fa.not())?;
        check_result("d & s after clone_from", n, &(&d & &s), &fa)?;
        check_result("s | d after clone_from", n, &(&s | &d), &fa)?;
        Ok(())
    });
    match r {
        Ok(v) => v,
        Err(p) => fail("clone_from and the operations after it return", p),
    }
}

fn mask_key(k: &Key, n: usize) -> Key {
    let full = if n >= 32 { !0u32 } else { (1u32 << n) - 1 };
    k.iter().map(|(p, q)| (p & full, q & full)).filter(|(p, q)| p & q == 0).collect()
}

/// One tour: conversions and operators at every ordered pair of sizes consecutively.
pub fn tour(which: &str, k: usize, _thorough: bool) -> Result<super::xsize::Tour, String> {
    if which != "sizes" || k != 0 {
        return Err("no such tour".into());
    }
    let mut t = super::xsize::Tour::new("sizes:0");
    let sizes: Vec<usize> = (0..=8).collect();
    let ka: Key = vec![(0b1, 0b10), (0b100, 0), (0, 0b1001), (0b110000, 0b1)];
    let kb: Key = vec![(0b10, 0), (0b1, 0b100), (0b1000000, 0b10)];
    for s in super::xsize::size_pairs(&sizes) {
        let tab = TT::from_fn(s, |m| crate::model::alpha::popcount(m) % 3 == 1 || m + 1 == nbits(s));
        t.push(format!("Sop::from(&lut) n={}", s), move || check_from_lut(s, &tab));
        for op in ["and", "or", "not"] {
            let (a, b) = (mask_key(&ka, s), mask_key(&kb, s));
            t.push(format!("{} n={}", op, s), move || check_op(s, &a, &b, op).map(|_| ()));
        }
    }
    Ok(t)
}

pub fn replay(case: &Case) -> Result<Verdict, String> {
    if case.get("kind")? == "tour" {
        return super::xsize::replay(case, &tour);
    }
    let n = case.usize("n")?;
    Ok(match case.get("kind")? {
        "clonefrom" => check_clone_from(n, case.usize("m")?, &parse_key(case.get("a")?)?, &parse_key(case.get("b")?)?),
        "op" => check_op(n, &parse_key(case.get("a")?)?, &parse_key(case.get("b")?)?, case.get("op")?).map(|_| ()),
        "op32" => check_op32(&parse_key(case.get("a")?)?, &parse_key(case.get("b")?)?, case.get("op")?),
        "fromlut" => check_from_lut(n, &TT::from_words(n, &case.words("t")?).ok_or("t malformed")?),
        "consts" => check_consts(n),
        "closure" => {
            // the result of op must be a state of the closure: re-derived by running the closure
            let r = Run::new("C14", crate::engine::Tier::Quick, 0);
            let mut r = r;
            r.silent = true;
            closure(&r, n, false, false);
            let v = r.viols.lock().unwrap();
            match v.first() {
                Some(x) => Err((x.expected.clone(), x.observed.clone())),
                None => Ok(()),
            }
        }
        k => return Err(format!("unknown kind {}", k)),
    })
}

fn op_case(n: usize, a: &Key, b: &Key, op: &str) -> String {
    format!("kind=op;n={};op={};a={};b={}", n, op, show_key(a), show_key(b))
}

fn report_op(l: &mut Local, n: usize, a: &Key, b: &Key, op: &str, v: (String, String)) {
    let what = if v.0.contains("no cube implying") || v.0.contains("no duplicate") || v.0.contains("no contradictory") { "redundant" } else if v.0.contains("is_zero") || v.0.contains("is_one") { "flags" } else { "meaning" };
    l.violation(format!("{:02}|{}|{:03}|{}|{}", n, op, a.len() + b.len(), show_key(a), show_key(b)), &format!("C14/{}/{}", op, what), op_case(n, a, b, op), v.0, v.1);
}

fn all_cubes(n: usize) -> Vec<(u32, u32)> {
    let mut v = Vec::new();
    for p in 0..(1u32 << n) {
        for q in 0..(1u32 << n) {
            if p & q == 0 {
                v.push((p, q));
            }
        }
    }
    v
}

/// REACH to a fixpoint from the single-cube generators under |, &, !, then saturation.
fn closure(run: &Run, n: usize, saturate: bool, redundant3: bool) {
    run.section_seq(&format!("REACH n={}: closure of the single-cube Sops under | & ! (to a fixpoint){}", n, if saturate { " + saturation of & and | over all ordered pairs of reachable states" } else { "" }), true, "fixpoint of the reachable covers; every transition checked for meaning and irredundancy", |l| {
        let gens: Vec<Key> = std::iter::once(vec![]).chain(all_cubes(n).into_iter().map(|c| vec![c])).collect();
        let mut visited: HashMap<Key, usize> = HashMap::new();
        let mut states: Vec<Key> = Vec::new();
        let mut parent: Vec<(usize, String)> = Vec::new();
        let mut frontier: Vec<usize> = Vec::new();
        for g in &gens {
            visited.insert(g.clone(), states.len());
            frontier.push(states.len());
            states.push(g.clone());
            parent.push((usize::MAX, "generator".into()));
        }
        let mut depth = 0;
        while !frontier.is_empty() {
            depth += 1;
            let mut next = Vec::new();
            let front_keys: Vec<(usize, Key)> = frontier.iter().map(|k| (*k, states[*k].clone())).collect();
            let results = crate::engine::par_map(&front_keys, |(k, s)| {
                let mut trans: Vec<(String, Key, Key)> = vec![("not".into(), s.clone(), vec![])];
                for g in &gens {
                    trans.push(("or".into(), s.clone(), g.clone()));
                    trans.push(("and".into(), s.clone(), g.clone()));
                    trans.push(("or".into(), g.clone(), s.clone()));
                    trans.push(("and".into(), g.clone(), s.clone()));
                }
                trans.into_iter().map(|(op, a, b)| {
                    let r = check_op(n, &a, &b, &op);
                    (*k, op, a, b, r)
                }).collect::<Vec<_>>()
            });
            for (k, op, a, b, r) in results.into_iter().flatten() {
                l.transitions += 1;
                l.validated += 1;
                match r {
                    Ok(res) => {
                        l.digest ^= crate::engine::mix3(crate::engine::hash_str(&show_key(&a)), crate::engine::hash_str(&show_key(&b)), crate::engine::hash_str(&show_key(&res)) ^ op.len() as u64);
                        l.nontrivial += (res != a) as u64;
                        if !visited.contains_key(&res) {
                            visited.insert(res.clone(), states.len());
                            next.push(states.len());
                            states.push(res);
                            parent.push((k, op.clone()));
                        }
                    }
                    Err(v) => report_op(l, n, &a, &b, &op, v),
                }
            }
            frontier = next;
            if states.len() > 2_000_000 {
                run.cap_hit(format!("Sop closure n={} exceeded 2e6 states", n));
                break;
            }
        }
        l.states += states.len() as u64;
        run.extra(&format!("sop_closure_n{}", n), J::obj().with("states", J::i(states.len() as u64)).with("depth_to_fixpoint", J::i(depth as u64)).with("distinct_functions", J::i(states.iter().map(|k| denote_key(n, k).w).collect::<std::collections::HashSet<_>>().len() as u64)));
        if let Some(last) = states.last() {
            l.sample(J::s(format!("n={} reachable cover: {} (reached by {} at depth {})", n, show_key(last), parent[states.len() - 1].1, depth)));
        }
        let in_closure = |l: &mut Local, a: &Key, b: &Key, op: &str, res: &Key| {
            if !visited.contains_key(res) {
                l.violation(format!("{:02}|closure|{}|{}", n, show_key(a), show_key(b)), "C14/closure", format!("kind=closure;n={};op={};a={};b={}", n, op, show_key(a), show_key(b)), "the result of an operation on reachable covers is a reachable cover (closure computed to a fixpoint)".into(), show_key(res));
            }
        };
        if saturate {
            let m = states.len();
            for i in 0..m {
                for j in 0..m {
                    for op in ["and", "or"] {
                        l.transitions += 1;
                        l.validated += 1;
                        match check_op(n, &states[i], &states[j], op) {
                            Ok(res) => {
                                l.nontrivial += 1;
                                in_closure(l, &states[i], &states[j], op, &res);
                            }
                            Err(v) => report_op(l, n, &states[i], &states[j], op, v),
                        }
                    }
                }
            }
        }
        // redundant initial states: from_cubes on every ordered cube list of length 2 (3)
        let cubes = all_cubes(n);
        let mut lists: Vec<Key> = Vec::new();
        for a in &cubes {
            for b in &cubes {
                lists.push(vec![*a, *b]);
                if redundant3 {
                    for c in &cubes {
                        lists.push(vec![*a, *b, *c]);
                    }
                }
            }
        }
        let idxs: Vec<usize> = (0..lists.len()).collect();
        let results = crate::engine::par_map(&idxs, |i| {
            let a = &lists[*i];
            let partner = &lists[(*i * 13 + 5) % lists.len()];
            let g = &gens[*i % gens.len()];
            let empty: Key = vec![];
            [("not", a, &empty), ("or", a, g), ("and", a, g), ("or", g, a), ("and", g, a), ("or", a, partner), ("and", a, partner)].iter().map(|(op, x, y)| (op.to_string(), (*x).clone(), (*y).clone(), check_op(n, x, y, op))).collect::<Vec<_>>()
        });
        l.states += lists.len() as u64;
        for (op, x, y, r) in results.into_iter().flatten() {
            l.transitions += 1;
            l.validated += 1;
            match r {
                Ok(res) => {
                    l.nontrivial += 1;
                    in_closure(l, &x, &y, &op, &res);
                }
                Err(v) => report_op(l, n, &x, &y, &op, v),
            }
        }
    });
}

/// n = 3 saturation in parallel (thorough): all ordered pairs of the 15936 reachable covers
fn saturate3(run: &Run) {
    // recompute the closure (cheap), then distribute the pairs
    let n = 3;
    let gens: Vec<Key> = std::iter::once(vec![]).chain(all_cubes(n).into_iter().map(|c| vec![c])).collect();
    let mut visited: std::collections::HashSet<Key> = gens.iter().cloned().collect();
    let mut states: Vec<Key> = gens.clone();
    let mut frontier: Vec<Key> = gens.clone();
    while !frontier.is_empty() {
        let mut next = Vec::new();
        for s in &frontier {
            let mut res: Vec<Key> = Vec::new();
            if let Ok(r) = check_op(n, s, &vec![], "not") {
                res.push(r);
            }
            for g in &gens {
                for op in ["or", "and"] {
                    if let Ok(r) = check_op(n, s, g, op) {
                        res.push(r);
                    }
                }
            }
            for r in res {
                if visited.insert(r.clone()) {
                    states.push(r.clone());
                    next.push(r);
                }
            }
        }
        frontier = next;
    }
    let m = states.len() as u64;
    run.section(&format!("SATURATION n=3: & and | on all ordered pairs of the {} reachable covers", m), true, "complete over ordered pairs of reachable states: decides expressions nesting any number of operations for n<=3", m * m, 4096, |r, l| {
        for idx in r {
            let (i, j) = ((idx / m) as usize, (idx % m) as usize);
            l.states += 1;
            for op in ["and", "or"] {
                l.transitions += 1;
                l.validated += 1;
                match check_op(n, &states[i], &states[j], op) {
                    Ok(res) => {
                        l.nontrivial += 1;
                        if !visited.contains(&res) {
                            l.violation(format!("03|closure|{}|{}", show_key(&states[i]), show_key(&states[j])), "C14/closure", format!("kind=closure;n=3;op={};a={};b={}", op, show_key(&states[i]), show_key(&states[j])), "the result is a reachable cover".into(), show_key(&res));
                        }
                    }
                    Err(v) => report_op(l, n, &states[i], &states[j], op, v),
                }
            }
        }
    });
}

/// n = 4..10: depth-bounded REACH from an alphabet of covers with containment patterns.
fn reach_large(run: &Run, n: usize) {
    let depth = if run.thorough() { 3 } else { 2 };
    let cap = if run.thorough() { 200_000 } else { 20_000 };
    run.section_seq(&format!("REACH n={}: depth<={} from covers with containment patterns (c, c&l, c&l&l', duplicates, minterm covers), cap {}", n, depth, cap), false, "operands: a pool of 12 covers; every state x {!, |pool, &pool}", |l| {
        let full = (1u32 << n) - 1;
        let c0: (u32, u32) = (0b101 & full, 0b010 & full);
        let mut inits: Vec<Key> = vec![vec![], vec![(0, 0)]];
        for v in 0..n {
            inits.push(vec![(1 << v, 0)]);
            inits.push(vec![(0, 1 << v)]);
        }
        let l1 = 1u32 << (n - 1);
        let l2 = 1u32 << (n / 2);
        inits.push(vec![c0, (c0.0 | l1, c0.1), (c0.0 | l1, c0.1 | (l2 & !c0.0 & !l1))]);
        inits.push(vec![c0, c0, (c0.0, c0.1 | l1)]);
        inits.push(vec![(l1, 0), (l1 | 1, 0), (0, l1), (1, l1)]);
        inits.push((0..n).map(|v| (1u32 << v, 0)).collect());
        inits.push((0..n).map(|v| (0, 1u32 << v)).collect());
        inits.push(vec![(full, 0), (0, full), (full & 0x5555, full & 0xaaaa)]);
        // minterm covers of a few alphabet functions (up to 12 cubes)
        for t in crate::model::alpha::named(n).iter().chain(crate::model::alpha::low_weight(n, 0).iter()) {
            let ones: Vec<usize> = (0..nbits(n)).filter(|m| t.get(*m)).collect();
            if !ones.is_empty() && ones.len() <= 12 {
                inits.push(ones.iter().map(|m| (*m as u32, !(*m as u32) & full)).collect());
            }
        }
        inits.sort();
        inits.dedup();
        inits.truncate(60);
        let pool: Vec<Key> = inits.iter().take(12).cloned().collect();
        let mut visited: std::collections::HashSet<Key> = inits.iter().cloned().collect();
        let mut frontier: Vec<Key> = inits.clone();
        let mut total = frontier.len();
        let mut capped = false;
        for _d in 0..depth {
            let mut next = Vec::new();
            for s in &frontier {
                let mut trans: Vec<(&str, Key, Key)> = vec![("not", s.clone(), vec![])];
                for p in &pool {
                    trans.push(("or", s.clone(), p.clone()));
                    trans.push(("and", s.clone(), p.clone()));
                    trans.push(("and", p.clone(), s.clone()));
                }
                for (op, a, b) in trans {
                    if a.len() * b.len().max(1) > 4096 {
                        continue; // keep products bounded (reported as a bound, not a verdict)
                    }
                    l.transitions += 1;
                    l.validated += 1;
                    match check_op(n, &a, &b, op) {
                        Ok(res) => {
                            l.nontrivial += (res != a) as u64;
                            l.digest ^= crate::engine::mix3(crate::engine::hash_str(&show_key(&a)), crate::engine::hash_str(&show_key(&b)), crate::engine::hash_str(&show_key(&res)));
                            if res.len() <= 64 && !visited.contains(&res) {
                                if total < cap {
                                    visited.insert(res.clone());
                                    next.push(res);
                                    total += 1;
                                } else {
                                    capped = true;
                                }
                            }
                        }
                        Err(v) => report_op(l, n, &a, &b, op, v),
                    }
                }
            }
            frontier = next;
        }
        l.states += total as u64;
        if capped {
            run.cap_hit(format!("Sop REACH n={}: state cap {} hit", n, cap));
        }
        if let Some(s) = frontier.last() {
            l.sample(J::s(format!("n={} cover at depth {}: {}", n, depth, show_key(s))));
        }
    });
}

/// 32-variable Sops (the only size at which `from_cubes` accepts the canonical zero cube):
/// operands built from {zero cube, one, x0, !x0, x31, x0x31}; the function is decided on the
/// probe variables {0, 1, 30, 31} x two backgrounds (the operands depend on x0 and x31 only).
fn check_op32(a: &Key, b: &Key, op: &str) -> Verdict {
    let probes: std::collections::BTreeSet<usize> = [0usize, 1, 30, 31].into_iter().collect();
    let points: Vec<u64> = [0u64, 0xffff_ffff].iter().flat_map(|bg| crate::model::cube::assignments(&probes, *bg)).collect();
    let val = |k: &Key, m: u64| k.iter().any(|(p, q)| CubeM::from_masks(*p, *q).value(m));
    let r = guarded(|| {
        let sa = sop_of(32, a);
        let sb = sop_of(32, b);
        let (res, want): (Sop, Box<dyn Fn(u64) -> bool>) = match op {
            "and" => (&sa & &sb, Box::new(|m| val(a, m) && val(b, m))),
            "or" => (&sa | &sb, Box::new(|m| val(a, m) || val(b, m))),
            _ => (!&sa, Box::new(|m| !val(a, m))),
        };
        for m in &points {
            if res.value(*m as usize) != want(*m) {
                return fail(format!("{} on 32-variable operands: value({:#x}) = {}", op, m, want(*m)), format!("{} (value {})", res, res.value(*m as usize)));
            }
        }
        let ms: Vec<CubeM> = res.cubes().iter().map(abs_cube).collect();
        for (i, c) in ms.iter().enumerate() {
            if c.contradictory() || res.cubes()[i].is_zero() {
                return fail(format!("{}: no contradictory cube in the result", op), format!("{}", res));
            }
            for (j, d) in ms.iter().enumerate() {
                if i != j && (c == d || sem_implies(c, d)) {
                    return fail(format!("{}: no duplicate and no cube implying another", op), format!("{}", res));
                }
            }
        }
        let zero = points.iter().all(|m| !want(*m));
        if res.is_zero() != zero {
            return fail(format!("{}: is_zero = {} (exactly for the constant-zero function)", op, zero), format!("{} on {}", res.is_zero(), res));
        }
        if res.is_one() && !points.iter().all(|m| want(*m)) {
            return fail(format!("{}: is_one only for constant one", op), format!("{}", res));
        }
        Ok(())
    });
    match r {
        Ok(v) => v,
        Err(p) => fail(format!("{} on 32-variable operands returns", op), p),
    }
}

fn wide32(run: &Run) {
    let z = (!0u32, !0u32);
    let cubes: Vec<(u32, u32)> = vec![z, (0, 0), (1, 0), (0, 1), (1 << 31, 0), (1 | (1 << 31), 0), (0, 1 << 31)];
    let mut lists: Vec<Key> = vec![vec![]];
    for a in &cubes {
        lists.push(vec![*a]);
        for b in &cubes {
            lists.push(vec![*a, *b]);
        }
    }
    let m = lists.len() as u64;
    run.section("WIDE n=32: operands over {zero cube, 1, x0, !x0, x31, x0x31, !x31} (lists of <= 2), all ordered pairs x {&, |} and !", false, "the only size where from_cubes accepts the canonical zero cube; functions decided on probe variables x two backgrounds", m * m, 64, |r, l| {
        for idx in r {
            let (a, b) = (&lists[(idx / m) as usize], &lists[(idx % m) as usize]);
            l.states += 1;
            let ops: Vec<&str> = if idx % m == 0 { vec!["and", "or", "not"] } else { vec!["and", "or"] };
            for op in ops {
                l.transitions += 1;
                l.validated += 1;
                match check_op32(a, b, op) {
                    Ok(()) => {
                        l.nontrivial += 1;
                        l.digest ^= crate::engine::mix3(idx, op.len() as u64, 32);
                    }
                    Err(v) => l.violation(format!("32|{}|{}|{}", op, show_key(a), show_key(b)), &format!("C14/{}/wide32", op), format!("kind=op32;n=32;op={};a={};b={}", op, show_key(a), show_key(b)), v.0, v.1),
                }
            }
        }
    });
}

/// Large covers: minterm covers of 6- and 7-variable functions OR-ed / AND-ed together, and a
/// long OR accumulation of single cubes (forms whose behaviour could change with their size).
fn large_covers(run: &Run) {
    run.section_seq("LARGE covers n=6,7: minterm covers (up to 64 cubes) | and & each other; OR-accumulation of 60 cubes", false, "pairs of minterm covers of alphabet functions with at most 64 minterms; accumulation checked after every step", |l| {
        for n in [6usize, 7] {
            let full = (1u32 << n) - 1;
            let fam: Vec<TT> = crate::model::alpha::family_capped(n, run.seed, 1, 4000).into_iter().filter(|t| { let c = t.count_ones(); c >= 2 && c <= 64 }).step_by(37).take(14).collect();
            let keys: Vec<Key> = fam.iter().map(|t| (0..nbits(n)).filter(|m| t.get(*m)).map(|m| (m as u32, !(m as u32) & full)).collect()).collect();
            for (i, a) in keys.iter().enumerate() {
                for b in keys.iter().skip(i) {
                    for op in ["or", "and"] {
                        l.states += 1;
                        l.transitions += 1;
                        l.validated += 1;
                        match check_op(n, a, b, op) {
                            Ok(_) => l.nontrivial += 1,
                            Err(v) => report_op(l, n, a, b, op, v),
                        }
                    }
                }
            }
            // accumulation: acc = acc | cube_k, cubes repeat non-adjacently
            let cubes = all_cubes(3).into_iter().map(|(p, q)| (p << (n - 3), q << (n - 3))).chain(all_cubes(2).into_iter()).collect::<Vec<_>>();
            let mut acc: Key = vec![];
            for k in 0..60usize {
                let c = cubes[(k * 7 + 3) % cubes.len()];
                if c == (0, 0) {
                    continue;
                }
                l.states += 1;
                l.transitions += 1;
                l.validated += 1;
                match check_op(n, &acc, &vec![c], "or") {
                    Ok(res) => {
                        acc = res;
                        l.nontrivial += 1;
                    }
                    Err(v) => {
                        report_op(l, n, &acc, &vec![c], "or", v);
                        break;
                    }
                }
            }
        }
    });
}

pub fn run(run: &Run) {
    run.set_rule("state = a Sop identified by its cube list; transition = & | (4 forms) and ! (2 forms) with operands from the generators / the visited set / redundant lists; non-trivial = the result differs from the first operand");
    run.assume("reference model: a cover denotes the OR of its cubes, each evaluated by the literal-set model; implication between cubes decided by enumerating assignments (model::cube)");
    for n in 0..=10usize {
        run.section_seq(&format!("CONSTANTS n={}: zero, one, nth_var, nth_var_inv", n), true, "complete", |l| {
            l.states += 2 + 2 * n as u64;
            l.transitions += 1;
            l.validated += 1;
            match check_consts(n) {
                Ok(()) => l.nontrivial += 1,
                Err(v) => l.violation(format!("{:02}|consts", n), "C14/consts", format!("kind=consts;n={}", n), v.0, v.1),
            }
        });
    }
    for n in 0..=4usize {
        let size = 1u64 << nbits(n);
        run.section(&format!("CONVERSION all tables n={}: Sop::from(&lut) is the minterm cover, Lut::from inverts it, then !, |, & on it", n), true, "complete: every function", size, 64, |r, l| {
            for x in r {
                let t = TT::from_u64(n, x);
                l.states += 1;
                l.transitions += 1;
                l.validated += 1;
                match check_from_lut(n, &t) {
                    Ok(()) => {
                        l.nontrivial += (x != 0) as u64;
                        l.digest ^= crate::engine::mix3(x, n as u64, 1);
                    }
                    Err(v) => l.violation(format!("{:02}|fromlut|{:x}", n, x), "C14/from_lut", format!("kind=fromlut;n={};t={}", n, fmt_words(&t.w)), v.0, v.1),
                }
                if n <= 3 || x % 16 == 5 {
                    // operations on the (maximally redundant-looking) minterm cover
                    let full = (1u32 << n) - 1;
                    let k: Key = (0..nbits(n)).filter(|m| t.get(*m)).map(|m| (m as u32, !(m as u32) & full)).collect();
                    let g: Key = vec![((x as u32) & full & 1, 0)];
                    for (op, a, b) in [("not", &k, &vec![]), ("or", &k, &g), ("and", &k, &g), ("or", &k, &k)] {
                        l.transitions += 1;
                        l.validated += 1;
                        match check_op(n, a, b, op) {
                            Ok(_) => l.nontrivial += 1,
                            Err(v) => report_op(l, n, a, b, op, v),
                        }
                    }
                }
            }
        });
    }
    for n in 5..=if run.thorough() { 9usize } else { 8 } {
        // every single-minterm table and pairs of minterms at the word ends: the smallest
        // witnesses of a conversion that mishandles one bit position of a block
        let nb = nbits(n);
        let mut tabs: Vec<TT> = Vec::new();
        for m in 0..nb {
            let mut t = TT::zero(n);
            t.set(m, true);
            tabs.push(t);
        }
        for w in 0..crate::model::tt::nwords(n) {
            for (a, b) in [(0usize, 63usize), (62, 63), (0, 1), (31, 32)] {
                if w * 64 + b < nb {
                    let mut t = TT::zero(n);
                    t.set(w * 64 + a, true);
                    t.set(w * 64 + b, true);
                    tabs.push(t.clone());
                    if n <= 7 {
                        tabs.push(t.not());
                    }
                }
            }
        }
        let total = tabs.len() as u64;
        run.section(&format!("CONVERSION n={}: every single-minterm table, minterm pairs at block ends and their complements", n), false, "all 2^n weight-1 tables; weight-2 tables at positions (0,63) (62,63) (0,1) (31,32) of every block (and their complements for n<=7)", total, 8, |r, l| {
            for k in r {
                let t = &tabs[k as usize];
                l.states += 1;
                l.transitions += 1;
                l.validated += 1;
                match check_from_lut(n, t) {
                    Ok(()) => {
                        l.nontrivial += 1;
                        l.digest ^= crate::engine::mix3(k, n as u64, 0x10f);
                    }
                    Err(v) => l.violation(format!("{:02}|fromlut|{}", n, fmt_words(&t.w)), "C14/from_lut", format!("kind=fromlut;n={};t={}", n, fmt_words(&t.w)), v.0, v.1),
                }
            }
        });
    }
    run.section_seq("CLONE_FROM Sop: every ordered pair of sizes 0..=6 x cube lists", false, "destination over m variables (3 cube lists) overwritten from a source over n variables (4 cube lists): size, cubes, table, then !, &, |", |l| {
        let srcs: Vec<Key> = vec![vec![], vec![(0, 0)], vec![(0b1, 0b10), (0b100, 0)], vec![(0b11, 0), (0, 0b101), (0b10000, 0b1)]];
        let dsts: Vec<Key> = vec![vec![], vec![(0, 0)], vec![(0b1, 0), (0b10, 0b1), (0, 0b100)]];
        for n in 0..=6usize {
            for m in 0..=6usize {
                for a in &srcs {
                    for b in &dsts {
                        let (a2, b2) = (mask_key(a, n), mask_key(b, m));
                        l.states += 1;
                        l.transitions += 1;
                        l.validated += 1;
                        match check_clone_from(n, m, &a2, &b2) {
                            Ok(()) => {
                                l.nontrivial += (n != m) as u64;
                                l.digest ^= crate::engine::mix3(n as u64, m as u64, a2.len() as u64 * 8 + b2.len() as u64);
                            }
                            Err(v) => l.violation(format!("clonefrom|{}|{}|{}|{}", n, m, show_key(&a2), show_key(&b2)), "C14/clone_from", format!("kind=clonefrom;n={};m={};a={};b={}", n, m, show_key(&a2), show_key(&b2)), v.0, v.1),
                        }
                    }
                }
            }
        }
    });
    super::xsize::run_tours(run, "C14", "sizes (Sop::from(&lut), &, |, ! at every ordered pair of sizes 0..=8 consecutively)", "results must not depend on what was computed before on the thread", 1, &|k| tour("sizes", k, false).unwrap());
    for n in 0..=3usize {
        closure(run, n, n <= 2, run.thorough() && n <= 3 || n <= 2);
    }
    if run.thorough() {
        saturate3(run);
    }
    for n in 4..=10usize {
        reach_large(run, n);
    }
    large_covers(run);
    wide32(run);
}
