//! A small operation language over truth tables, interpreted on the subject (real calls)
//! and on the reference model, used by the history-quantified properties (C02, C10, C17)
//! and by their replays.
//!
//! init:  zero | one | var:i | parity | majority | thr:k | eq:k | sym:c | default |
//!        hex:<text> | blocks:<w.w.w> | allfn:<k> | int:<value>   (int: From<u8/u16/u32/u64>, n = 3..6)
//! op:    not | not_in | notop (!a) | notopref (!&a) | flip:i | flip_in:i | swap:i:j | swap_in:i:j | adj:i | adj_in:i |
//!        cof0:i | cof1:i | fc0:i:<w> (from_cofactors(self, w, i)) | fc1:i:<w> (from_cofactors(w, self, i)) |
//!        set:m | unset:m | setv:m:b | and:f:<w> | or:f:<w> | xor:f:<w>  (binary form f, second operand w) |
//!        rand:f:<w> | ror:f:<w> | rxor:f:<w> (self is the second operand) |
//!        cfrom:m (d.clone_from(self), d an existing table of m variables) | next (iterator step) | reparse (from_hex(to_hex)) | conv (to the other type and back) | clone

use crate::api::{BinOp, Tab};
use crate::engine::parse_words;
use crate::model::alpha::popcount;
use crate::model::tt::{nbits, TT};
use volute::Lut;

fn us(s: &str) -> Result<usize, String> {
    s.parse::<usize>().map_err(|e| format!("bad number {:?}: {}", s, e))
}

/// Initial state on the subject. `Ok(None)`: the parser returned Err.
pub fn init_subject<L: Tab>(n: usize, s: &str) -> Result<Option<L>, String> {
    let (h, rest) = s.split_once(':').unwrap_or((s, ""));
    Ok(Some(match h {
        "zero" => L::t_zero(n),
        "one" => L::t_one(n),
        "var" => L::t_nth_var(n, us(rest)?),
        "parity" => L::t_parity(n),
        "majority" => L::t_majority(n),
        "thr" => L::t_threshold(n, us(rest)?),
        "eq" => L::t_equals(n, us(rest)?),
        "sym" => L::t_symmetric(n, us(rest)?),
        "default" => L::t_default(),
        "hex" => match L::t_from_hex(n, rest) {
            Ok(l) => l,
            Err(()) => return Ok(None),
        },
        "blocks" => L::t_from_blocks(n, &parse_words(rest)?),
        "allfn" => {
            let k = us(rest)?;
            match L::t_all_functions(n).nth(k) {
                Some(l) => l,
                None => return Err("allfn index beyond the iterator".into()),
            }
        }
        "int" => {
            let v = rest.parse::<u64>().map_err(|e| e.to_string())?;
            let l: Lut = match n {
                3 => volute::Lut3::from(v as u8).into(),
                4 => volute::Lut4::from(v as u16).into(),
                5 => volute::Lut5::from(v as u32).into(),
                6 => volute::Lut6::from(v).into(),
                _ => return Err("int init needs n in 3..=6".into()),
            };
            L::t_from_blocks(n, l.blocks())
        }
        _ => return Err(format!("unknown init {}", s)),
    }))
}

/// Initial state in the model, from the definitions. `None` for inits that have no
/// model-side definition here (hex / allfn: the caller abstracts the subject's result).
pub fn init_model(n: usize, s: &str) -> Result<Option<TT>, String> {
    let (h, rest) = s.split_once(':').unwrap_or((s, ""));
    Ok(Some(match h {
        "zero" => TT::from_fn(n, |_| false),
        "one" => TT::from_fn(n, |_| true),
        "var" => {
            let i = us(rest)?;
            TT::from_fn(n, |m| (m >> i) & 1 != 0)
        }
        "parity" => TT::from_fn(n, |m| popcount(m) % 2 == 1),
        "majority" => TT::from_fn(n, |m| popcount(m) >= (n + 1) / 2),
        "thr" => {
            let k = us(rest)?;
            TT::from_fn(n, |m| popcount(m) >= k)
        }
        "eq" => {
            let k = us(rest)?;
            TT::from_fn(n, |m| popcount(m) == k)
        }
        "sym" => {
            let c = us(rest)?;
            TT::from_fn(n, |m| (c >> popcount(m)) & 1 != 0)
        }
        "default" => TT::zero(n),
        "blocks" => TT::from_words(n, &parse_words(rest)?).ok_or("blocks init is not well-formed")?,
        "int" => {
            let v = rest.parse::<u64>().map_err(|e| e.to_string())?;
            TT::from_fn(n, |m| (v >> m) & 1 != 0)
        }
        _ => return Ok(None),
    }))
}

fn operand<L: Tab>(n: usize, w: &str) -> Result<L, String> {
    Ok(L::t_from_blocks(n, &parse_words(w)?))
}

/// One operation on the subject.
pub fn op_subject<L: Tab>(l: &L, op: &str) -> Result<L, String> {
    let n = l.t_nv();
    let p: Vec<&str> = op.split(':').collect();
    let a = |k: usize| -> Result<usize, String> { us(p.get(k).copied().unwrap_or("")) };
    Ok(match p[0] {
        "not" => l.t_not(),
        "notop" => L::t_unary_form(2, l).0,
        "notopref" => L::t_unary_form(3, l).0,
        "not_in" => {
            let mut x = l.clone();
            x.t_not_inplace();
            x
        }
        "flip" => l.t_flip(a(1)?),
        "flip_in" => {
            let mut x = l.clone();
            x.t_flip_inplace(a(1)?);
            x
        }
        "swap" => l.t_swap(a(1)?, a(2)?),
        "swap_in" => {
            let mut x = l.clone();
            x.t_swap_inplace(a(1)?, a(2)?);
            x
        }
        "adj" => l.t_swap_adjacent(a(1)?).0,
        "adj_in" => {
            let mut x = l.clone();
            x.t_swap_adjacent_inplace(a(1)?);
            x
        }
        "cof0" => l.t_cofactors(a(1)?).0,
        "cof1" => l.t_cofactors(a(1)?).1,
        "fc0" => L::t_from_cofactors(l, &operand::<L>(n, p[2])?, a(1)?),
        "fc1" => L::t_from_cofactors(&operand::<L>(n, p[2])?, l, a(1)?),
        "set" => {
            let mut x = l.clone();
            x.t_set_bit(a(1)?);
            x
        }
        "unset" => {
            let mut x = l.clone();
            x.t_unset_bit(a(1)?);
            x
        }
        "setv" => {
            let mut x = l.clone();
            x.t_set_value(a(1)?, a(2)? != 0);
            x
        }
        "and" | "or" | "xor" => L::t_binary_form(BinOp::from_name(p[0]).unwrap(), a(1)?, l, &operand::<L>(n, p[2])?).0,
        "rand" | "ror" | "rxor" => L::t_binary_form(BinOp::from_name(&p[0][1..]).unwrap(), a(1)?, &operand::<L>(n, p[2])?, l).0,
        "next" => {
            let mut it = L::t_iter_from(l.clone());
            let first = it.next().ok_or("iterator positioned on a table yields nothing")?;
            if first.t_blocks() != l.t_blocks() {
                return Err("iterator positioned on a table does not yield it first".into());
            }
            match it.next() {
                Some(x) => x,
                None => L::t_zero(n), // wrapped: the model successor of all-ones is zero
            }
        }
        "reparse" => match L::t_from_hex(n, &l.t_hex()) {
            Ok(x) => x,
            Err(()) => return Err("from_hex_string rejects the output of to_hex_string".into()),
        },
        "conv" => {
            if L::STATIC {
                let d: Lut = l.t_to_lut();
                L::t_from_blocks(n, d.blocks())
            } else {
                fn via<S: Tab>(n: usize, w: &[u64]) -> Vec<u64> {
                    let s: S = S::t_from_blocks(n, w);
                    s.t_to_lut().blocks().to_vec()
                }
                if n <= 12 {
                    let w = crate::for_static!(n, via(n, l.t_blocks()));
                    L::t_from_blocks(n, &w)
                } else {
                    l.clone()
                }
            }
        }
        "clone" => l.clone(),
        "cfrom" => l.t_clone_from_into(a(1)?),
        _ => return Err(format!("unknown op {}", op)),
    })
}

/// The same operation on the model.
pub fn op_model(t: &TT, op: &str) -> Result<TT, String> {
    let n = t.n;
    let p: Vec<&str> = op.split(':').collect();
    let a = |k: usize| -> Result<usize, String> { us(p.get(k).copied().unwrap_or("")) };
    let w = |k: usize| -> Result<TT, String> { TT::from_words(n, &parse_words(p.get(k).copied().unwrap_or(""))?).ok_or_else(|| "operand not well-formed".to_string()) };
    Ok(match p[0] {
        "not" | "not_in" | "notop" | "notopref" => t.not(),
        "flip" | "flip_in" => t.flip(a(1)?),
        "swap" | "swap_in" => t.swap(a(1)?, a(2)?),
        "adj" | "adj_in" => t.swap(a(1)?, a(1)? + 1),
        "cof0" => t.cof0(a(1)?),
        "cof1" => t.cof1(a(1)?),
        "fc0" => TT::from_cofactors(t, &w(2)?, a(1)?),
        "fc1" => TT::from_cofactors(&w(2)?, t, a(1)?),
        "set" => {
            let mut x = t.clone();
            x.set(a(1)?, true);
            x
        }
        "unset" => {
            let mut x = t.clone();
            x.set(a(1)?, false);
            x
        }
        "setv" => {
            let mut x = t.clone();
            x.set(a(1)?, a(2)? != 0);
            x
        }
        "and" | "or" | "xor" | "rand" | "ror" | "rxor" => {
            let o = match p[0] {
                "and" | "rand" => BinOp::And,
                "or" | "ror" => BinOp::Or,
                _ => BinOp::Xor,
            };
            let u = w(2)?;
            TT::from_fn(n, |m| o.bit(t.get(m), u.get(m)))
        }
        "next" => t.succ().0,
        "reparse" | "conv" | "clone" | "cfrom" => t.clone(),
        _ => return Err(format!("unknown op {}", op)),
    })
}

/// The operation alphabet from a state of size n: all index arguments; binary operations and
/// from_cofactors with every operand of `operands`; bit mutators on the positions `bits`.
pub fn op_alphabet(n: usize, operands: &[TT], bits: &[usize], binary_forms: &[usize]) -> Vec<String> {
    let mut v: Vec<String> = vec!["not".into(), "not_in".into(), "notop".into(), "notopref".into(), "next".into(), "reparse".into(), "conv".into()];
    for i in 0..n {
        v.push(format!("flip:{}", i));
        v.push(format!("flip_in:{}", i));
        v.push(format!("cof0:{}", i));
        v.push(format!("cof1:{}", i));
        if i + 1 < n {
            v.push(format!("adj:{}", i));
            v.push(format!("adj_in:{}", i));
        }
        for j in 0..n {
            v.push(format!("swap:{}:{}", i, j));
            if i < j {
                v.push(format!("swap_in:{}:{}", i, j));
            }
        }
    }
    for m in [0usize, 1, 3, 5, 6, 7, 8] {
        // clone_from into an existing table of another size (dynamic type) / the same type
        v.push(format!("cfrom:{}", m));
    }
    v.push(format!("cfrom:{}", n));
    for m in bits {
        if *m < nbits(n) {
            v.push(format!("set:{}", m));
            v.push(format!("unset:{}", m));
            v.push(format!("setv:{}:{}", m, m & 1));
        }
    }
    for u in operands {
        let ws = crate::engine::fmt_words(&u.w);
        for f in binary_forms {
            v.push(format!("and:{}:{}", f, ws));
            v.push(format!("or:{}:{}", f, ws));
            v.push(format!("xor:{}:{}", f, ws));
        }
        v.push(format!("rand:{}:{}", binary_forms[0], ws));
        v.push(format!("rxor:{}:{}", binary_forms[0], ws));
        for i in 0..n {
            v.push(format!("fc0:{}:{}", i, ws));
            v.push(format!("fc1:{}:{}", i, ws));
        }
    }
    v
}
