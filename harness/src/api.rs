//! One trait over the two truth-table types of the subject, so that every exploration can
//! be instantiated for `Lut` and for each exported alias `Lut0..Lut12`. Each method is a
//! direct call of the public API method of the same name; nothing is re-implemented here.

use std::fmt::Debug;
use std::hash::Hash;
use volute::{DecompositionType, Lut, StaticLut};

#[derive(Clone, Copy, PartialEq, Eq, Debug)]
pub enum BinOp {
    And,
    Or,
    Xor,
}

impl BinOp {
    pub const ALL: [BinOp; 3] = [BinOp::And, BinOp::Or, BinOp::Xor];
    pub fn name(self) -> &'static str {
        match self {
            BinOp::And => "and",
            BinOp::Or => "or",
            BinOp::Xor => "xor",
        }
    }
    pub fn from_name(s: &str) -> Option<BinOp> {
        BinOp::ALL.iter().copied().find(|o| o.name() == s)
    }
    #[inline]
    pub fn word(self, a: u64, b: u64) -> u64 {
        match self {
            BinOp::And => a & b,
            BinOp::Or => a | b,
            BinOp::Xor => a ^ b,
        }
    }
    #[inline]
    pub fn bit(self, a: bool, b: bool) -> bool {
        match self {
            BinOp::And => a && b,
            BinOp::Or => a || b,
            BinOp::Xor => a != b,
        }
    }
}

pub const UNARY_FORMS: [&str; 4] = ["a.not()", "a.not_inplace()", "!a", "!&a"];
pub const BINARY_FORMS: [&str; 8] = ["a.op(&b)", "a.op_inplace(&b)", "a op b", "a op &b", "&a op b", "&a op &b", "a op= b", "a op= &b"];

pub trait Tab: Clone + Eq + Ord + Hash + Debug + Send + Sync + Sized + 'static {
    const STATIC: bool;
    fn tname(n: usize) -> String;

    fn t_zero(n: usize) -> Self;
    fn t_one(n: usize) -> Self;
    fn t_nth_var(n: usize, i: usize) -> Self;
    fn t_parity(n: usize) -> Self;
    fn t_majority(n: usize) -> Self;
    fn t_threshold(n: usize, k: usize) -> Self;
    fn t_equals(n: usize, k: usize) -> Self;
    fn t_symmetric(n: usize, c: usize) -> Self;
    fn t_random(n: usize) -> Self;
    fn t_default() -> Self;
    fn t_from_blocks(n: usize, b: &[u64]) -> Self;
    fn t_from_hex(n: usize, s: &str) -> Result<Self, ()>;
    fn t_all_functions(n: usize) -> Box<dyn Iterator<Item = Self>>;
    fn t_iter_from(start: Self) -> Box<dyn Iterator<Item = Self>>;

    fn t_nv(&self) -> usize;
    fn t_num_bits(&self) -> usize;
    fn t_num_blocks(&self) -> usize;
    fn t_blocks(&self) -> &[u64];
    fn t_value(&self, m: usize) -> bool;
    fn t_get_bit(&self, m: usize) -> bool;

    fn t_set_value(&mut self, m: usize, v: bool);
    fn t_set_bit(&mut self, m: usize);
    fn t_unset_bit(&mut self, m: usize);
    fn t_not_inplace(&mut self);
    fn t_and_inplace(&mut self, r: &Self);
    fn t_or_inplace(&mut self, r: &Self);
    fn t_xor_inplace(&mut self, r: &Self);
    fn t_flip_inplace(&mut self, i: usize);
    fn t_swap_inplace(&mut self, i: usize, j: usize);
    fn t_swap_adjacent_inplace(&mut self, i: usize);

    fn t_not(&self) -> Self;
    fn t_and(&self, r: &Self) -> Self;
    fn t_or(&self, r: &Self) -> Self;
    fn t_xor(&self, r: &Self) -> Self;
    fn t_flip(&self, i: usize) -> Self;
    fn t_swap(&self, i: usize, j: usize) -> Self;
    /// `swap_adjacent` takes `&mut self` in the subject; returns (result, receiver afterwards)
    fn t_swap_adjacent(&self, i: usize) -> (Self, Self);
    fn t_cofactors(&self, i: usize) -> (Self, Self);
    fn t_from_cofactors(c0: &Self, c1: &Self, i: usize) -> Self;

    fn t_p_canon(&self) -> (Self, Vec<u8>);
    fn t_n_canon(&self) -> (Self, u32);
    fn t_npn_canon(&self) -> (Self, Vec<u8>, u32);

    fn t_top_decomposition(&self, i: usize) -> DecompositionType;
    fn t_is_pos_unate(&self, i: usize) -> bool;
    fn t_is_neg_unate(&self, i: usize) -> bool;
    fn t_bdd(l: &[Self]) -> usize;

    fn t_hex(&self) -> String;
    fn t_bin(&self) -> String;
    fn t_fmt_display(&self) -> String;
    fn t_fmt_lowerhex(&self) -> String;
    fn t_fmt_binary(&self) -> String;

    /// One of the four syntactic forms of NOT: (result, `a` as left behind when borrowed)
    fn t_unary_form(form: usize, a: &Self) -> (Self, Self);
    /// One of the eight syntactic forms of a binary operator:
    /// (result, `a` afterwards, `b` afterwards) — for consumed operands the original is returned
    fn t_binary_form(op: BinOp, form: usize, a: &Self, b: &Self) -> (Self, Self, Self);

    /// `&a op &a` with both operands the same object
    fn t_alias_form(op: BinOp, a: &Self) -> Self;
    /// to the dynamic type
    fn t_to_lut(&self) -> Lut;
    /// `d.clone_from(self)` where `d` is an existing table (of `m` variables for the dynamic type)
    fn t_clone_from_into(&self, m: usize) -> Self;
    /// Run a script of iterator calls on the concrete iterator type (not through `Box<dyn>`):
    /// `start = None`: `all_functions(n)`; `Some(t)`: the hooked iterator positioned on `t`.
    fn t_iter_script(n: usize, start: Option<&Self>, script: &[IterOp], step: &mut dyn FnMut(usize, IterObs<Self>) -> bool);
}

/// One call on an `all_functions` iterator (adaptors are applied to `it.by_ref()`).
#[derive(Clone, Copy, Debug, PartialEq, Eq)]
pub enum IterOp {
    Next,
    Nth(usize),
    SizeHint,
    /// `it.by_ref().skip(k).next()`
    SkipNext(usize),
    /// `it.by_ref().step_by(s).take(t).collect()`
    StepBy(usize, usize),
    /// `it.by_ref().take(k).count()`
    TakeCount(usize),
    /// `it.by_ref().count()` (only scripted when few items remain)
    Count,
    /// `it.by_ref().last()` (only scripted when few items remain)
    Last,
    /// `it.by_ref().max()` / `min()` (only scripted when few items remain)
    Max,
    Min,
    /// the iterator consumed by value (must be the last call of a script): `it.max()`,
    /// `it.min()`, `it.last()`, `it.count()`
    MaxOwned,
    MinOwned,
    LastOwned,
    CountOwned,
}

#[derive(Clone, Debug, PartialEq, Eq)]
pub enum IterObs<L> {
    Item(Option<L>),
    Hint(usize, Option<usize>),
    Items(Vec<L>),
    Count(usize),
}

/// `step` sees every observation as soon as it is made and stops the script by returning false
/// (so that a call is never made on an iterator that has already departed from the model).
pub fn run_iter_script<L: Ord, I: Iterator<Item = L>>(mut it: I, script: &[IterOp], step: &mut dyn FnMut(usize, IterObs<L>) -> bool) {
    for (k, op) in script.iter().enumerate() {
        let o = match *op {
            IterOp::MaxOwned => {
                step(k, IterObs::Item(it.max()));
                return;
            }
            IterOp::MinOwned => {
                step(k, IterObs::Item(it.min()));
                return;
            }
            IterOp::LastOwned => {
                step(k, IterObs::Item(it.last()));
                return;
            }
            IterOp::CountOwned => {
                step(k, IterObs::Count(it.count()));
                return;
            }
            IterOp::Max => IterObs::Item(it.by_ref().max()),
            IterOp::Min => IterObs::Item(it.by_ref().min()),
            IterOp::Next => IterObs::Item(it.next()),
            IterOp::Nth(k) => IterObs::Item(it.nth(k)),
            IterOp::SizeHint => {
                let (a, b) = it.size_hint();
                IterObs::Hint(a, b)
            }
            IterOp::SkipNext(k) => IterObs::Item(it.by_ref().skip(k).next()),
            IterOp::StepBy(s, t) => IterObs::Items(it.by_ref().step_by(s).take(t).collect()),
            IterOp::TakeCount(k) => IterObs::Count(it.by_ref().take(k).count()),
            IterOp::Count => IterObs::Count(it.by_ref().count()),
            IterOp::Last => IterObs::Item(it.by_ref().last()),
        };
        if !step(k, o) {
            return;
        }
    }
}

macro_rules! common_methods {
    () => {
        fn t_nv(&self) -> usize {
            self.num_vars()
        }
        fn t_num_bits(&self) -> usize {
            self.num_bits()
        }
        fn t_num_blocks(&self) -> usize {
            self.num_blocks()
        }
        fn t_blocks(&self) -> &[u64] {
            self.blocks()
        }
        fn t_value(&self, m: usize) -> bool {
            self.value(m)
        }
        fn t_get_bit(&self, m: usize) -> bool {
            self.get_bit(m)
        }
        fn t_set_value(&mut self, m: usize, v: bool) {
            self.set_value(m, v)
        }
        fn t_set_bit(&mut self, m: usize) {
            self.set_bit(m)
        }
        fn t_unset_bit(&mut self, m: usize) {
            self.unset_bit(m)
        }
        fn t_not_inplace(&mut self) {
            self.not_inplace()
        }
        fn t_and_inplace(&mut self, r: &Self) {
            self.and_inplace(r)
        }
        fn t_or_inplace(&mut self, r: &Self) {
            self.or_inplace(r)
        }
        fn t_xor_inplace(&mut self, r: &Self) {
            self.xor_inplace(r)
        }
        fn t_flip_inplace(&mut self, i: usize) {
            self.flip_inplace(i)
        }
        fn t_swap_inplace(&mut self, i: usize, j: usize) {
            self.swap_inplace(i, j)
        }
        fn t_swap_adjacent_inplace(&mut self, i: usize) {
            self.swap_adjacent_inplace(i)
        }
        fn t_not(&self) -> Self {
            self.not()
        }
        fn t_and(&self, r: &Self) -> Self {
            self.and(r)
        }
        fn t_or(&self, r: &Self) -> Self {
            self.or(r)
        }
        fn t_xor(&self, r: &Self) -> Self {
            self.xor(r)
        }
        fn t_flip(&self, i: usize) -> Self {
            self.flip(i)
        }
        fn t_swap(&self, i: usize, j: usize) -> Self {
            self.swap(i, j)
        }
        fn t_swap_adjacent(&self, i: usize) -> (Self, Self) {
            let mut recv = self.clone();
            let r = recv.swap_adjacent(i);
            (r, recv)
        }
        fn t_cofactors(&self, i: usize) -> (Self, Self) {
            self.cofactors(i)
        }
        fn t_from_cofactors(c0: &Self, c1: &Self, i: usize) -> Self {
            Self::from_cofactors(c0, c1, i)
        }
        fn t_n_canon(&self) -> (Self, u32) {
            self.n_canonization()
        }
        fn t_top_decomposition(&self, i: usize) -> DecompositionType {
            self.top_decomposition(i)
        }
        fn t_is_pos_unate(&self, i: usize) -> bool {
            self.is_pos_unate(i)
        }
        fn t_is_neg_unate(&self, i: usize) -> bool {
            self.is_neg_unate(i)
        }
        fn t_bdd(l: &[Self]) -> usize {
            Self::bdd_complexity(l)
        }
        fn t_hex(&self) -> String {
            self.to_hex_string()
        }
        fn t_bin(&self) -> String {
            self.to_bin_string()
        }
        fn t_fmt_display(&self) -> String {
            format!("{}", self)
        }
        fn t_fmt_lowerhex(&self) -> String {
            format!("{:x}", self)
        }
        fn t_fmt_binary(&self) -> String {
            format!("{:b}", self)
        }
        fn t_unary_form(form: usize, a: &Self) -> (Self, Self) {
            match form {
                0 => {
                    let r = a.not();
                    (r, a.clone())
                }
                1 => {
                    let mut x = a.clone();
                    x.not_inplace();
                    (x, a.clone())
                }
                2 => {
                    let x = a.clone();
                    (!x, a.clone())
                }
                3 => {
                    let x = a.clone();
                    let r = !&x;
                    (r, x)
                }
                _ => panic!("harness: bad unary form"),
            }
        }
        fn t_alias_form(op: BinOp, a: &Self) -> Self {
            match op {
                BinOp::And => a & a,
                BinOp::Or => a | a,
                BinOp::Xor => a ^ a,
            }
        }
        fn t_binary_form(op: BinOp, form: usize, a: &Self, b: &Self) -> (Self, Self, Self) {
            let x = a.clone();
            let y = b.clone();
            macro_rules! forms {
                ($named:ident, $inpl:ident, $op:tt, $opa:tt) => {
                    match form {
                        0 => {
                            let r = x.$named(&y);
                            (r, x, y)
                        }
                        1 => {
                            let mut r = x.clone();
                            r.$inpl(&y);
                            (r, x, y)
                        }
                        2 => {
                            let r = x.clone() $op y.clone();
                            (r, x, y)
                        }
                        3 => {
                            let r = x.clone() $op &y;
                            (r, x, y)
                        }
                        4 => {
                            let r = &x $op y.clone();
                            (r, x, y)
                        }
                        5 => {
                            let r = &x $op &y;
                            (r, x, y)
                        }
                        6 => {
                            let mut r = x.clone();
                            r $opa y.clone();
                            (r, x, y)
                        }
                        7 => {
                            let mut r = x.clone();
                            r $opa &y;
                            (r, x, y)
                        }
                        _ => panic!("harness: bad binary form"),
                    }
                };
            }
            match op {
                BinOp::And => forms!(and, and_inplace, &, &=),
                BinOp::Or => forms!(or, or_inplace, |, |=),
                BinOp::Xor => forms!(xor, xor_inplace, ^, ^=),
            }
        }
    };
}

impl Tab for Lut {
    const STATIC: bool = false;
    fn tname(_n: usize) -> String {
        "Lut".to_string()
    }
    fn t_zero(n: usize) -> Self {
        Lut::zero(n)
    }
    fn t_one(n: usize) -> Self {
        Lut::one(n)
    }
    fn t_nth_var(n: usize, i: usize) -> Self {
        Lut::nth_var(n, i)
    }
    fn t_parity(n: usize) -> Self {
        Lut::parity(n)
    }
    fn t_majority(n: usize) -> Self {
        Lut::majority(n)
    }
    fn t_threshold(n: usize, k: usize) -> Self {
        Lut::threshold(n, k)
    }
    fn t_equals(n: usize, k: usize) -> Self {
        Lut::equals(n, k)
    }
    fn t_symmetric(n: usize, c: usize) -> Self {
        Lut::symmetric(n, c)
    }
    fn t_random(n: usize) -> Self {
        Lut::random(n)
    }
    fn t_default() -> Self {
        Lut::default()
    }
    fn t_from_blocks(n: usize, b: &[u64]) -> Self {
        Lut::from_blocks(n, b)
    }
    fn t_from_hex(n: usize, s: &str) -> Result<Self, ()> {
        Lut::from_hex_string(n, s)
    }
    fn t_all_functions(n: usize) -> Box<dyn Iterator<Item = Self>> {
        Box::new(Lut::all_functions(n))
    }
    fn t_iter_from(start: Self) -> Box<dyn Iterator<Item = Self>> {
        Box::new(Lut::verif_iter_from(start))
    }
    fn t_p_canon(&self) -> (Self, Vec<u8>) {
        self.p_canonization()
    }
    fn t_npn_canon(&self) -> (Self, Vec<u8>, u32) {
        self.npn_canonization()
    }
    fn t_to_lut(&self) -> Lut {
        self.clone()
    }
    fn t_clone_from_into(&self, m: usize) -> Self {
        let mut d = Lut::one(m);
        d.clone_from(self);
        d
    }
    fn t_iter_script(n: usize, start: Option<&Self>, script: &[IterOp], step: &mut dyn FnMut(usize, IterObs<Self>) -> bool) {
        match start {
            None => run_iter_script(Lut::all_functions(n), script, step),
            Some(t) => run_iter_script(Lut::verif_iter_from(t.clone()), script, step),
        }
    }
    common_methods!();
}

impl<const N: usize, const T: usize> Tab for StaticLut<N, T> {
    const STATIC: bool = true;
    fn tname(n: usize) -> String {
        format!("Lut{}", n)
    }
    fn t_zero(n: usize) -> Self {
        assert_eq!(n, N, "harness: static size");
        Self::zero()
    }
    fn t_one(n: usize) -> Self {
        assert_eq!(n, N, "harness: static size");
        Self::one()
    }
    fn t_nth_var(n: usize, i: usize) -> Self {
        assert_eq!(n, N, "harness: static size");
        Self::nth_var(i)
    }
    fn t_parity(n: usize) -> Self {
        assert_eq!(n, N, "harness: static size");
        Self::parity()
    }
    fn t_majority(n: usize) -> Self {
        assert_eq!(n, N, "harness: static size");
        Self::majority()
    }
    fn t_threshold(n: usize, k: usize) -> Self {
        assert_eq!(n, N, "harness: static size");
        Self::threshold(k)
    }
    fn t_equals(n: usize, k: usize) -> Self {
        assert_eq!(n, N, "harness: static size");
        Self::equals(k)
    }
    fn t_symmetric(n: usize, c: usize) -> Self {
        assert_eq!(n, N, "harness: static size");
        Self::symmetric(c)
    }
    fn t_random(n: usize) -> Self {
        assert_eq!(n, N, "harness: static size");
        Self::random()
    }
    fn t_default() -> Self {
        Self::default()
    }
    fn t_from_blocks(n: usize, b: &[u64]) -> Self {
        assert_eq!(n, N, "harness: static size");
        Self::from_blocks(b)
    }
    fn t_from_hex(n: usize, s: &str) -> Result<Self, ()> {
        assert_eq!(n, N, "harness: static size");
        Self::from_hex_string(s)
    }
    fn t_all_functions(n: usize) -> Box<dyn Iterator<Item = Self>> {
        assert_eq!(n, N, "harness: static size");
        Box::new(Self::all_functions())
    }
    fn t_iter_from(start: Self) -> Box<dyn Iterator<Item = Self>> {
        Box::new(Self::verif_iter_from(start))
    }
    fn t_p_canon(&self) -> (Self, Vec<u8>) {
        let (r, p) = self.p_canonization();
        (r, p.to_vec())
    }
    fn t_npn_canon(&self) -> (Self, Vec<u8>, u32) {
        let (r, p, m) = self.npn_canonization();
        (r, p.to_vec(), m)
    }
    fn t_to_lut(&self) -> Lut {
        Lut::from(*self)
    }
    fn t_clone_from_into(&self, _m: usize) -> Self {
        let mut d = Self::one();
        d.clone_from(self);
        d
    }
    fn t_iter_script(n: usize, start: Option<&Self>, script: &[IterOp], step: &mut dyn FnMut(usize, IterObs<Self>) -> bool) {
        assert_eq!(n, N, "harness: static size");
        match start {
            None => run_iter_script(Self::all_functions(), script, step),
            Some(t) => run_iter_script(Self::verif_iter_from(*t), script, step),
        }
    }
    common_methods!();
}

/// Instantiate a generic function for the exported alias of size `n` (0..=12).
#[macro_export]
macro_rules! for_static {
    ($n:expr, $f:ident ( $($args:expr),* )) => {
        match $n {
            0 => $f::<volute::Lut0>($($args),*),
            1 => $f::<volute::Lut1>($($args),*),
            2 => $f::<volute::Lut2>($($args),*),
            3 => $f::<volute::Lut3>($($args),*),
            4 => $f::<volute::Lut4>($($args),*),
            5 => $f::<volute::Lut5>($($args),*),
            6 => $f::<volute::Lut6>($($args),*),
            7 => $f::<volute::Lut7>($($args),*),
            8 => $f::<volute::Lut8>($($args),*),
            9 => $f::<volute::Lut9>($($args),*),
            10 => $f::<volute::Lut10>($($args),*),
            11 => $f::<volute::Lut11>($($args),*),
            12 => $f::<volute::Lut12>($($args),*),
            _ => panic!("harness: no static alias for this size"),
        }
    };
}

/// Run for the dynamic type (`ty == false`) or the static alias (`ty == true`).
#[macro_export]
macro_rules! for_type {
    ($st:expr, $n:expr, $f:ident ( $($args:expr),* )) => {
        if $st { $crate::for_static!($n, $f($($args),*)) } else { $f::<volute::Lut>($($args),*) }
    };
}

pub fn dec_name(d: &DecompositionType) -> &'static str {
    match d {
        DecompositionType::None => "None",
        DecompositionType::Independent => "Independent",
        DecompositionType::Identity => "Identity",
        DecompositionType::Negation => "Negation",
        DecompositionType::And => "And",
        DecompositionType::Or => "Or",
        DecompositionType::Le => "Le",
        DecompositionType::Lt => "Lt",
        DecompositionType::Xor => "Xor",
    }
}
