#![allow(dead_code)]
//! lsx — lock-step explorer for the volute properties C01..C19 (see /verif/DESIGN.md)

mod api;
mod engine;
mod model;
mod props;

use engine::{Run, Tier};

fn usage() -> ! {
    eprintln!("usage: lsx <C01..C19> quick|thorough | lsx replay <file> | lsx sub <name> [args..]");
    std::process::exit(2);
}

fn main() {
    engine::install_panic_hook();
    let args: Vec<String> = std::env::args().collect();
    if args.len() < 3 {
        usage();
    }
    let seed: u64 = std::env::var("VERIF_SEED").ok().and_then(|s| s.parse::<i64>().ok()).map(|x| x as u64).unwrap_or(0);
    match args[1].as_str() {
        "replay" => {
            std::process::exit(props::replay_file(&args[2]));
        }
        "sub" => {
            std::process::exit(props::sub(&args[2], &args[3..], seed));
        }
        id => {
            let tier = match std::env::var("VERIF_TIER").ok().as_deref().or(Some(args[2].as_str())) {
                Some("quick") => Tier::Quick,
                Some("thorough") => Tier::Thorough,
                _ => usage(),
            };
            // positional tier wins over the environment
            let tier = match args[2].as_str() {
                "quick" => Tier::Quick,
                "thorough" => Tier::Thorough,
                _ => tier,
            };
            if !props::known(id) {
                usage();
            }
            engine::start_watchdog(tier);
            if let Err(e) = model::tt::self_check() {
                eprintln!("MACHINERY-ERROR model self-check failed: {}", e);
                std::process::exit(2);
            }
            let run = Run::new(id, tier, seed);
            if tier == Tier::Thorough && std::env::var("VERIF_SKIP_DETERMINISM").is_err() {
                // the harness must own all nondeterminism: the quick-sized exploration, run
                // twice, has to produce identical counts and digests
                let mut sig = Vec::new();
                for _ in 0..2 {
                    let mut r = Run::new(id, Tier::Quick, seed);
                    r.silent = true;
                    props::run(&r);
                    sig.push((r.digest(), r.totals()));
                    run.viols.lock().unwrap().extend(r.viols.lock().unwrap().iter().cloned());
                }
                if sig[0] != sig[1] {
                    eprintln!("MACHINERY-ERROR nondeterministic exploration: {:?} vs {:?}", sig[0], sig[1]);
                    std::process::exit(2);
                }
                run.extra("determinism_check", engine::json::J::s(format!("quick-sized exploration run twice: identical digest {:016x} and counts {:?}", sig[0].0, sig[0].1)));
            }
            props::run(&run);
            std::process::exit(engine::finish(&run));
        }
    }
}
