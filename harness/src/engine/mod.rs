//! Lock-step explorer engine: parallel sections, counters, violations, known findings,
//! evidence and replay files. Properties supply the transition systems (see `props`).

pub mod json;

use json::J;
use std::cell::Cell;
use std::collections::BTreeMap;
use std::panic::{catch_unwind, AssertUnwindSafe};
use std::sync::atomic::{AtomicBool, AtomicU64, Ordering};
use std::sync::Mutex;
use std::time::Instant;

#[derive(Clone, Copy, PartialEq, Eq, Debug)]
pub enum Tier {
    Quick,
    Thorough,
}

impl Tier {
    pub fn name(self) -> &'static str {
        match self {
            Tier::Quick => "quick",
            Tier::Thorough => "thorough",
        }
    }
    pub fn thorough(self) -> bool {
        self == Tier::Thorough
    }
}

pub fn profile() -> &'static str {
    if cfg!(debug_assertions) {
        "checked"
    } else {
        "release"
    }
}

pub fn verif_root() -> String {
    std::env::var("VERIF_ROOT").unwrap_or_else(|_| "/verif".to_string())
}

pub fn num_workers() -> usize {
    std::env::var("VERIF_WORKERS")
        .ok()
        .and_then(|s| s.parse().ok())
        .unwrap_or_else(|| std::thread::available_parallelism().map(|n| n.get()).unwrap_or(4))
        .max(1)
}

// ---------------------------------------------------------------------------------------
// Subject calls: every call into volute runs under `guarded`, which catches panics.

thread_local! {
    static IN_SUBJECT: Cell<bool> = const { Cell::new(false) };
    static LAST_PANIC_LOC: std::cell::RefCell<String> = const { std::cell::RefCell::new(String::new()) };
}

/// Marker of a panic raised by harness code (not by the subject) inside a guarded call: such
/// an observation is a machinery failure, never a verdict (see `finish`).
pub const HARNESS_PANIC: &str = "HARNESS-PANIC";

pub fn install_panic_hook() {
    let default = std::panic::take_hook();
    std::panic::set_hook(Box::new(move |info| {
        let loc = info.location().map(|l| format!("{}:{}", l.file(), l.line())).unwrap_or_default();
        LAST_PANIC_LOC.with(|c| *c.borrow_mut() = loc);
        if !IN_SUBJECT.with(|f| f.get()) {
            default(info);
        }
    }));
}

/// Run a call into the subject; a panic becomes `Err(message)`.
pub fn guarded<R>(f: impl FnOnce() -> R) -> Result<R, String> {
    let prev = IN_SUBJECT.with(|c| c.replace(true));
    LAST_PANIC_LOC.with(|c| c.borrow_mut().clear());
    let r = catch_unwind(AssertUnwindSafe(f));
    IN_SUBJECT.with(|c| c.set(prev));
    r.map_err(|e| {
        let msg = if let Some(s) = e.downcast_ref::<&str>() {
            format!("panic: {}", s)
        } else if let Some(s) = e.downcast_ref::<String>() {
            format!("panic: {}", s)
        } else {
            "panic".to_string()
        };
        // the harness is compiled from relative paths (src/..), the subject from an absolute one
        let loc = LAST_PANIC_LOC.with(|c| c.borrow().clone());
        if loc.starts_with("src/") {
            format!("{} at {}: {}", HARNESS_PANIC, loc, msg)
        } else {
            msg
        }
    })
}

// ---------------------------------------------------------------------------------------

#[inline]
pub fn mix(mut x: u64) -> u64 {
    x ^= x >> 30;
    x = x.wrapping_mul(0xbf58476d1ce4e5b9);
    x ^= x >> 27;
    x = x.wrapping_mul(0x94d049bb133111eb);
    x ^ (x >> 31)
}

#[inline]
pub fn mix3(a: u64, b: u64, c: u64) -> u64 {
    mix(mix(mix(a).wrapping_add(b)).wrapping_add(c))
}

pub fn hash_str(s: &str) -> u64 {
    let mut h = 0xcbf29ce484222325u64;
    for b in s.bytes() {
        h ^= b as u64;
        h = h.wrapping_mul(0x100000001b3);
    }
    mix(h)
}

pub fn hash_words(w: &[u64]) -> u64 {
    let mut h = 0x243f6a8885a308d3u64;
    for x in w {
        h = mix(h ^ *x).wrapping_add(0x9e3779b97f4a7c15);
    }
    h
}

#[derive(Clone, Debug)]
pub struct Violation {
    /// canonical ordering key: the smallest key is the one reported first
    pub key: String,
    /// finding signature (call site + predicate on the failing input)
    pub sig: String,
    /// replayable case, `k=v;k=v` (see props::replay)
    pub case: String,
    pub expected: String,
    pub observed: String,
}

/// Per-worker accumulator; merged deterministically at the end of a section.
#[derive(Default)]
pub struct Local {
    pub states: u64,
    pub transitions: u64,
    pub validated: u64,
    pub nontrivial: u64,
    pub digest: u64,
    pub viol_count: u64,
    pub viols: Vec<Violation>,
    pub samples: Vec<J>,
    pub outcomes: BTreeMap<String, u64>,
}

impl Local {
    #[inline]
    pub fn tr(&mut self, state: u64, action: u64, succ: u64) {
        self.transitions += 1;
        self.validated += 1;
        self.digest ^= mix3(state, action, succ);
    }
    pub fn outcome(&mut self, k: &str) {
        if let Some(v) = self.outcomes.get_mut(k) {
            *v += 1;
        } else {
            self.outcomes.insert(k.to_string(), 1);
        }
    }
    pub fn violation(&mut self, key: String, sig: &str, case: String, expected: String, observed: String) {
        // a case observed in the checked-profile binary is replayed there
        let (key, case) = if profile() == "checked" && !case.contains("prof=") { (format!("{}|checked", key), format!("{};prof=checked", case)) } else { (key, case) };
        self.viol_count += 1;
        self.viols.push(Violation { key, sig: sig.to_string(), case, expected, observed });
        if self.viols.len() > 256 {
            self.trim();
        }
    }
    fn trim(&mut self) {
        // keep the smallest keys, but at least one per signature
        self.viols.sort_by(|a, b| a.key.cmp(&b.key));
        let mut seen: BTreeMap<String, usize> = BTreeMap::new();
        let mut keep = Vec::new();
        for v in self.viols.drain(..) {
            let c = seen.entry(v.sig.clone()).or_insert(0);
            if *c < 4 {
                *c += 1;
                keep.push(v);
            }
        }
        self.viols = keep;
    }
    pub fn sample(&mut self, j: J) {
        if self.samples.len() < 3 {
            self.samples.push(j);
        }
    }
}

#[derive(Clone, Debug)]
pub struct Section {
    pub name: String,
    pub exhaustive: bool,
    pub bound: String,
    pub states: u64,
    pub transitions: u64,
    pub validated: u64,
    pub nontrivial: u64,
    pub digest: u64,
    pub wall_s: f64,
}

pub struct Run {
    pub prop: String,
    pub tier: Tier,
    pub seed: u64,
    pub start: Instant,
    pub silent: bool,
    /// build profile of this binary: "release" (no debug assertions / overflow checks) or "checked"
    pub profile: &'static str,
    pub sections: Mutex<Vec<Section>>,
    pub viols: Mutex<Vec<Violation>>,
    pub viol_count: AtomicU64,
    pub samples: Mutex<Vec<J>>,
    pub outcomes: Mutex<BTreeMap<String, u64>>,
    pub assumptions: Mutex<Vec<String>>,
    pub extra: Mutex<Vec<(String, J)>>,
    pub caps: Mutex<Vec<String>>,
    pub rule: Mutex<String>,
    pub machinery_error: Mutex<Option<String>>,
}

impl Run {
    pub fn new(prop: &str, tier: Tier, seed: u64) -> Run {
        Run {
            prop: prop.to_string(),
            tier,
            seed,
            start: Instant::now(),
            silent: false,
            profile: profile(),
            sections: Mutex::new(Vec::new()),
            viols: Mutex::new(Vec::new()),
            viol_count: AtomicU64::new(0),
            samples: Mutex::new(Vec::new()),
            outcomes: Mutex::new(BTreeMap::new()),
            assumptions: Mutex::new(Vec::new()),
            extra: Mutex::new(Vec::new()),
            caps: Mutex::new(Vec::new()),
            rule: Mutex::new(String::new()),
            machinery_error: Mutex::new(None),
        }
    }

    pub fn thorough(&self) -> bool {
        self.tier.thorough()
    }

    pub fn assume(&self, s: &str) {
        let mut a = self.assumptions.lock().unwrap();
        if !a.iter().any(|x| x == s) {
            a.push(s.to_string());
        }
    }

    pub fn set_rule(&self, s: &str) {
        *self.rule.lock().unwrap() = s.to_string();
    }

    pub fn extra(&self, k: &str, v: J) {
        let mut e = self.extra.lock().unwrap();
        if let Some(x) = e.iter_mut().find(|x| x.0 == k) {
            x.1 = v;
        } else {
            e.push((k.to_string(), v));
        }
    }

    pub fn cap_hit(&self, s: String) {
        self.caps.lock().unwrap().push(s);
    }

    /// A failure of the machinery itself (model self-check, nondeterminism…): exit 2, no verdict.
    pub fn machinery(&self, s: String) {
        let mut m = self.machinery_error.lock().unwrap();
        if m.is_none() {
            *m = Some(s);
        }
    }

    /// Explore `total` work items in parallel; `f(range, local)` handles a chunk.
    /// `exhaustive` must be true only if the section covers the property's whole domain at
    /// the sizes named in `name`.
    pub fn section<F>(&self, name: &str, exhaustive: bool, bound: &str, total: u64, chunk: u64, f: F)
    where
        F: Fn(std::ops::Range<u64>, &mut Local) + Sync,
    {
        let t0 = Instant::now();
        let next = AtomicU64::new(0);
        let chunk = chunk.max(1);
        let nw = num_workers().min(((total + chunk - 1) / chunk).max(1) as usize);
        let stop = AtomicBool::new(false);
        let mut locals: Vec<Local> = Vec::new();
        std::thread::scope(|sc| {
            let mut hs = Vec::new();
            for _ in 0..nw {
                hs.push(sc.spawn(|| {
                    let mut l = Local::default();
                    loop {
                        if stop.load(Ordering::Relaxed) {
                            break;
                        }
                        let s = next.fetch_add(chunk, Ordering::Relaxed);
                        if s >= total {
                            break;
                        }
                        let e = (s + chunk).min(total);
                        f(s..e, &mut l);
                        // a flood of violations: no point continuing this section to the end
                        if l.viol_count > 100_000 {
                            stop.store(true, Ordering::Relaxed);
                        }
                    }
                    l
                }));
            }
            for h in hs {
                match h.join() {
                    Ok(l) => locals.push(l),
                    Err(e) => std::panic::resume_unwind(e),
                }
            }
        });
        let stopped = stop.load(Ordering::Relaxed);
        if stopped {
            self.cap_hit(format!("section '{}' stopped early after >100000 violations in one worker", name));
        }
        let mut sec = Section {
            name: name.to_string(),
            exhaustive: exhaustive && !stopped,
            bound: bound.to_string(),
            states: 0,
            transitions: 0,
            validated: 0,
            nontrivial: 0,
            digest: 0,
            wall_s: 0.0,
        };
        sec.wall_s = t0.elapsed().as_secs_f64();
        let mut samples = self.samples.lock().unwrap();
        let mut outcomes = self.outcomes.lock().unwrap();
        let mut viols = self.viols.lock().unwrap();
        for l in locals {
            sec.states += l.states;
            sec.transitions += l.transitions;
            sec.validated += l.validated;
            sec.nontrivial += l.nontrivial;
            sec.digest ^= l.digest;
            self.viol_count.fetch_add(l.viol_count, Ordering::Relaxed);
            viols.extend(l.viols);
            for s in l.samples {
                samples.push(J::obj().with("section", J::s(name)).with("case", s));
            }
            for (k, v) in l.outcomes {
                *outcomes.entry(k).or_insert(0) += v;
            }
        }
        // bounded memory for violations; keep canonical-smallest per signature
        if viols.len() > 4096 {
            viols.sort_by(|a, b| a.key.cmp(&b.key));
            let mut seen: BTreeMap<String, usize> = BTreeMap::new();
            viols.retain(|v| {
                let c = seen.entry(v.sig.clone()).or_insert(0);
                *c += 1;
                *c <= 8
            });
        }
        // keep samples deterministic and few: sort by text, keep two per section
        let mut mine: Vec<J> = samples.iter().filter(|s| s.get("section").and_then(|x| x.as_str()) == Some(name)).cloned().collect();
        samples.retain(|s| s.get("section").and_then(|x| x.as_str()) != Some(name));
        mine.sort_by_key(|s| s.dump());
        mine.truncate(2);
        samples.extend(mine);
        if !self.silent {
            eprintln!(
                "[{}] {:<58} states={:<11} transitions={:<13} nontrivial={:<11} {} {:.1}s",
                self.prop, name, sec.states, sec.transitions, sec.nontrivial, if sec.exhaustive { "exhaustive" } else { "bounded" }, sec.wall_s
            );
        }
        self.sections.lock().unwrap().push(sec);
    }

    /// Sequential convenience wrapper (small sections).
    pub fn section_seq<F>(&self, name: &str, exhaustive: bool, bound: &str, f: F)
    where
        F: Fn(&mut Local) + Sync,
    {
        self.section(name, exhaustive, bound, 1, 1, |_, l| f(l));
    }

    pub fn digest(&self) -> u64 {
        let mut d = 0u64;
        for s in self.sections.lock().unwrap().iter() {
            d ^= mix(s.digest ^ hash_str(&s.name));
        }
        d
    }

    pub fn totals(&self) -> (u64, u64, u64, u64) {
        let mut t = (0, 0, 0, 0);
        for s in self.sections.lock().unwrap().iter() {
            t.0 += s.states;
            t.1 += s.transitions;
            t.2 += s.validated;
            t.3 += s.nontrivial;
        }
        t
    }
}

// ---------------------------------------------------------------------------------------
// Known findings

#[derive(Clone, Debug)]
pub struct Finding {
    pub property: String,
    pub signature: String,
    pub status: String,
    pub what: String,
}

pub fn load_findings() -> Result<Vec<Finding>, String> {
    let path = format!("{}/known_findings.json", verif_root());
    let text = match std::fs::read_to_string(&path) {
        Ok(t) => t,
        Err(_) => return Ok(Vec::new()),
    };
    let j = json::parse(&text).map_err(|e| format!("{}: {}", path, e))?;
    let mut out = Vec::new();
    for f in j.get("findings").and_then(|f| f.as_arr()).unwrap_or(&[]) {
        let g = |k: &str| f.get(k).and_then(|x| x.as_str()).unwrap_or("").to_string();
        for p in g("property").split(',') {
            out.push(Finding { property: p.trim().to_string(), signature: g("signature"), status: g("status"), what: g("what") });
        }
    }
    Ok(out)
}

/// Finish a run: classify violations, write replay files and evidence, print the verdict
/// lines and return the process exit code.
pub fn finish(run: &Run) -> i32 {
    let root = verif_root();
    {
        // an observation produced by a panic of harness code is not a verdict on the subject
        let mut v = run.viols.lock().unwrap();
        let before = v.len();
        let first = v.iter().find(|x| x.observed.contains(HARNESS_PANIC) || x.expected.contains(HARNESS_PANIC)).map(|x| format!("{} [{}]", x.observed, x.case));
        v.retain(|x| !x.observed.contains(HARNESS_PANIC) && !x.expected.contains(HARNESS_PANIC));
        if let Some(f) = first {
            run.machinery(format!("{} observation(s) came from a panic inside the harness, not the subject: {}", before - v.len(), f));
        }
    }
    let machinery = run.machinery_error.lock().unwrap().clone();
    if let Some(m) = &machinery {
        eprintln!("MACHINERY-ERROR property={} {}", run.prop, m);
        // every recorded violation has been confirmed by a by-the-book slow path, so violations
        // are still reported below (exit 1); without any, a machinery error is exit 2, no verdict
        if run.viols.lock().unwrap().is_empty() {
            return 2;
        }
    }
    let findings = match load_findings() {
        Ok(f) => f,
        Err(e) => {
            eprintln!("MACHINERY-ERROR cannot read known findings: {}", e);
            return 2;
        }
    };
    let mut viols = run.viols.lock().unwrap().clone();
    viols.sort_by(|a, b| a.key.cmp(&b.key));
    let mut known: Vec<(Finding, u64, Violation)> = Vec::new();
    let mut fresh: Vec<Violation> = Vec::new();
    for v in viols {
        if let Some(f) = findings.iter().find(|f| f.property == run.prop && f.status == "open" && f.signature == v.sig) {
            if let Some(k) = known.iter_mut().find(|k| k.0.signature == f.signature) {
                k.1 += 1;
            } else {
                known.push((f.clone(), 1, v));
            }
        } else {
            fresh.push(v);
        }
    }
    for (f, cnt, v) in &known {
        println!("KNOWN-FINDING: property={} {} [signature={} first={} occurrences>={}]", run.prop, f.what, f.signature, v.case, cnt);
    }
    // replay files: the first violation of each fresh signature (at most 5 files)
    let dir = format!("{}/replays/{}", root, run.prop);
    let mut reported = Vec::new();
    let mut sigs_seen: Vec<String> = Vec::new();
    for v in &fresh {
        if sigs_seen.contains(&v.sig) {
            continue;
        }
        sigs_seen.push(v.sig.clone());
        if reported.len() >= 5 {
            break;
        }
        let _ = std::fs::create_dir_all(&dir);
        let path = format!("{}/{:016x}.json", dir, hash_str(&v.case));
        let j = J::obj()
            .with("property", J::s(&run.prop))
            .with("signature", J::s(&v.sig))
            .with("case", J::s(&v.case))
            .with("expected", J::s(&v.expected))
            .with("observed", J::s(&v.observed))
            .with("tier", J::s(run.tier.name()))
            .with("seed", J::i(run.seed));
        if let Err(e) = std::fs::write(&path, j.dump()) {
            eprintln!("MACHINERY-ERROR cannot write replay {}: {}", path, e);
            return 2;
        }
        reported.push((path, v.clone()));
    }
    let (states, transitions, validated, nontrivial) = run.totals();
    let secs = run.sections.lock().unwrap().clone();
    let all_exh = !secs.is_empty() && secs.iter().all(|s| s.exhaustive);
    let outcomes = run.outcomes.lock().unwrap().clone();
    let mut cov = J::obj();
    cov.set("states", J::i(states));
    cov.set("transitions", J::i(transitions));
    cov.set("traces_validated_against_impl", J::i(validated));
    cov.set("evaluations", J::i(transitions));
    cov.set("distinct_nontrivial", J::i(nontrivial));
    cov.set("rule", J::s(run.rule.lock().unwrap().clone()));
    cov.set("exhaustive", J::Bool(all_exh));
    cov.set("exhaustive_sections", J::i(secs.iter().filter(|s| s.exhaustive).count() as u64));
    cov.set("bounded_sections", J::i(secs.iter().filter(|s| !s.exhaustive).count() as u64));
    cov.set("distinct_outcomes", J::i(outcomes.len() as u64));
    cov.set("outcomes", J::from_map(&outcomes));
    cov.set("digest", J::s(format!("{:016x}", run.digest())));
    cov.set("caps_hit", J::Arr(run.caps.lock().unwrap().iter().map(|s| J::s(s.clone())).collect()));
    let mut samples = run.samples.lock().unwrap().clone();
    if samples.is_empty() {
        samples.push(J::s("(no sample recorded)"));
    }
    samples.truncate(40);
    cov.set("samples", J::Arr(samples));
    cov.set(
        "sections",
        J::Arr(
            secs.iter()
                .map(|s| {
                    J::obj()
                        .with("name", J::s(&s.name))
                        .with("exhaustive", J::Bool(s.exhaustive))
                        .with("bound", J::s(&s.bound))
                        .with("states", J::i(s.states))
                        .with("transitions", J::i(s.transitions))
                        .with("validated_against_impl", J::i(s.validated))
                        .with("nontrivial", J::i(s.nontrivial))
                        .with("wall_s", J::Num(s.wall_s))
                })
                .collect(),
        ),
    );
    for (k, v) in run.extra.lock().unwrap().iter() {
        cov.set(k, v.clone());
    }
    let ev = J::obj()
        .with("property_id", J::s(&run.prop))
        .with("tier", J::s(run.tier.name()))
        .with("seed", J::i(run.seed))
        .with("level", J::s("model_checking"))
        .with("coverage", cov)
        .with("assumptions", J::Arr(run.assumptions.lock().unwrap().iter().map(|s| J::s(s.clone())).collect()))
        .with("wall_s", J::Num(run.start.elapsed().as_secs_f64()))
        .with("violations", J::i(fresh.len() as u64))
        .with("violations_total_seen", J::i(run.viol_count.load(Ordering::Relaxed)))
        .with(
            "known_findings_reported",
            J::Arr(known.iter().map(|(f, c, _)| J::obj().with("signature", J::s(&f.signature)).with("occurrences_at_least", J::i(*c))).collect()),
        )
        .with(
            "violation_replays",
            J::Arr(reported.iter().map(|(p, v)| J::obj().with("replay", J::s(p.clone())).with("signature", J::s(&v.sig))).collect()),
        );
    let evdir = format!("{}/evidence", root);
    let _ = std::fs::create_dir_all(&evdir);
    let evpath = format!("{}/{}.json", evdir, run.prop);
    if let Err(e) = std::fs::write(&evpath, ev.dump()) {
        eprintln!("MACHINERY-ERROR cannot write evidence {}: {}", evpath, e);
        return 2;
    }
    if !reported.is_empty() {
        for (p, v) in &reported {
            println!("VIOLATION property={} replay={}", run.prop, p);
            println!("  signature: {}", v.sig);
            println!("  case:      {}", v.case);
            println!("  expected:  {}", v.expected);
            println!("  observed:  {}", v.observed);
        }
        println!(
            "{} {}: {} violation(s) kept of {} seen, {} distinct signature(s); states={} transitions={}",
            run.prop,
            run.tier.name(),
            fresh.len(),
            run.viol_count.load(Ordering::Relaxed),
            sigs_seen.len(),
            states,
            transitions
        );
        return 1;
    }
    if machinery.is_some() {
        // only known findings were seen, and a part of the machinery failed: no verdict
        return 2;
    }
    if states == 0 || transitions == 0 {
        eprintln!("MACHINERY-ERROR property={} explored nothing", run.prop);
        return 2;
    }
    println!(
        "OK property={} tier={} states={} transitions={} validated={} nontrivial={} outcomes={} exhaustive_sections={}/{} wall={:.1}s",
        run.prop,
        run.tier.name(),
        states,
        transitions,
        validated,
        nontrivial,
        outcomes.len(),
        secs.iter().filter(|s| s.exhaustive).count(),
        secs.len(),
        run.start.elapsed().as_secs_f64()
    );
    0
}

// ---------------------------------------------------------------------------------------
// Caps (wall clock and resident memory): hitting one is a machinery exit, never a verdict.

pub fn start_watchdog(tier: Tier) {
    let wall_cap: u64 = std::env::var("VERIF_WALL_CAP").ok().and_then(|s| s.parse().ok()).unwrap_or(match tier {
        Tier::Quick => 900,
        Tier::Thorough => 4 * 3600,
    });
    let rss_cap_mb: u64 = std::env::var("VERIF_RSS_CAP_MB").ok().and_then(|s| s.parse().ok()).unwrap_or(24 * 1024);
    let t0 = Instant::now();
    std::thread::spawn(move || loop {
        std::thread::sleep(std::time::Duration::from_millis(250));
        if t0.elapsed().as_secs() > wall_cap {
            eprintln!("MACHINERY-ERROR wall-clock cap of {} s hit; no verdict", wall_cap);
            std::process::exit(3);
        }
        if let Ok(s) = std::fs::read_to_string("/proc/self/statm") {
            if let Some(rss_pages) = s.split_whitespace().nth(1).and_then(|x| x.parse::<u64>().ok()) {
                let mb = rss_pages * 4096 / (1024 * 1024);
                if mb > rss_cap_mb {
                    eprintln!("MACHINERY-ERROR resident-memory cap of {} MB hit ({} MB); no verdict", rss_cap_mb, mb);
                    std::process::exit(3);
                }
            }
        }
    });
}

// ---------------------------------------------------------------------------------------
// Case strings: `k=v;k=v`

pub struct Case(pub Vec<(String, String)>);

impl Case {
    pub fn parse(s: &str) -> Case {
        let mut v = Vec::new();
        for part in s.split(';') {
            if let Some((k, val)) = part.split_once('=') {
                v.push((k.trim().to_string(), val.to_string()));
            }
        }
        Case(v)
    }
    pub fn get(&self, k: &str) -> Result<&str, String> {
        self.0.iter().find(|e| e.0 == k).map(|e| e.1.as_str()).ok_or_else(|| format!("case lacks field {}", k))
    }
    pub fn opt(&self, k: &str) -> Option<&str> {
        self.0.iter().find(|e| e.0 == k).map(|e| e.1.as_str())
    }
    pub fn usize(&self, k: &str) -> Result<usize, String> {
        self.get(k)?.parse::<usize>().map_err(|e| format!("field {}: {}", k, e))
    }
    pub fn u64(&self, k: &str) -> Result<u64, String> {
        self.get(k)?.parse::<u64>().map_err(|e| format!("field {}: {}", k, e))
    }
    pub fn words(&self, k: &str) -> Result<Vec<u64>, String> {
        parse_words(self.get(k)?)
    }
}

/// words as `hex.hex.hex`, least significant word first
pub fn fmt_words(w: &[u64]) -> String {
    w.iter().map(|x| format!("{:x}", x)).collect::<Vec<_>>().join(".")
}

pub fn parse_words(s: &str) -> Result<Vec<u64>, String> {
    if s.is_empty() {
        return Ok(vec![]);
    }
    s.split('.').map(|x| u64::from_str_radix(x, 16).map_err(|e| format!("word {:?}: {}", x, e))).collect()
}

// ---------------------------------------------------------------------------------------
// CONFIG mode: the same exploration in the binary built with debug assertions and overflow
// checks (`checked` profile). The child prints its run as JSON; the parent merges it.

pub fn run_to_json(run: &Run) -> J {
    let digest = run.digest();
    let secs = run.sections.lock().unwrap();
    let viols = run.viols.lock().unwrap();
    J::obj()
        .with("profile", J::s(run.profile))
        .with("digest", J::s(format!("{:016x}", digest)))
        .with("viol_count", J::i(run.viol_count.load(Ordering::Relaxed)))
        .with("machinery", match run.machinery_error.lock().unwrap().clone() {
            Some(m) => J::s(m),
            None => J::Null,
        })
        .with(
            "sections",
            J::Arr(
                secs.iter()
                    .map(|s| {
                        J::obj()
                            .with("name", J::s(&s.name))
                            .with("exhaustive", J::Bool(s.exhaustive))
                            .with("bound", J::s(&s.bound))
                            .with("states", J::i(s.states))
                            .with("transitions", J::i(s.transitions))
                            .with("validated", J::i(s.validated))
                            .with("nontrivial", J::i(s.nontrivial))
                            .with("digest", J::s(format!("{:016x}", s.digest)))
                            .with("wall_s", J::Num(s.wall_s))
                    })
                    .collect(),
            ),
        )
        .with(
            "violations",
            J::Arr(viols.iter().take(2000).map(|v| J::obj().with("key", J::s(&v.key)).with("sig", J::s(&v.sig)).with("case", J::s(&v.case)).with("expected", J::s(&v.expected)).with("observed", J::s(&v.observed))).collect()),
        )
        .with("outcomes", J::from_map(&run.outcomes.lock().unwrap()))
        .with("extra", J::Obj(run.extra.lock().unwrap().clone()))
}

/// Run `lsx sub run <prop> <tier> [args]` in the checked binary and merge its sections and
/// violations into `run`. Returns the child's JSON (for digest joins).
pub fn child_run(run: &Run, args: &[&str]) -> Option<J> {
    if profile() == "checked" {
        // this already is the second configuration
        return None;
    }
    child_run_with(run, "LSX_CHECKED", "checked", &["sub", "run", &run.prop.clone(), run.tier.name()], args)
}

/// Generalised child run: the executable named by the environment variable `exe_var`, which
/// must report the profile `expect`.
pub fn child_run_with(run: &Run, exe_var: &str, expect: &str, head: &[&str], args: &[&str]) -> Option<J> {
    let exe = match std::env::var(exe_var) {
        Ok(e) => e,
        Err(_) => {
            run.machinery(format!("{} is not set: a second binary is needed for this property (use ./check)", exe_var));
            return None;
        }
    };
    let t0 = Instant::now();
    let out = std::process::Command::new(&exe).args(head).args(args).env("VERIF_SEED", format!("{}", run.seed as i64)).output();
    let out = match out {
        Ok(o) => o,
        Err(e) => {
            run.machinery(format!("cannot run {}: {}", exe, e));
            return None;
        }
    };
    if !out.status.success() {
        run.machinery(format!("child process failed ({}): {}", out.status, String::from_utf8_lossy(&out.stderr).chars().take(2000).collect::<String>()));
        return None;
    }
    let text = String::from_utf8_lossy(&out.stdout).to_string();
    let j = match json::parse(&text) {
        Ok(j) => j,
        Err(e) => {
            run.machinery(format!("checked-profile child printed unparsable JSON: {}", e));
            return None;
        }
    };
    if j.get("profile").and_then(|p| p.as_str()) != Some(expect) {
        run.machinery(format!("the binary named by {} does not report the profile {}", exe_var, expect));
        return None;
    }
    if let Some(m) = j.get("machinery").and_then(|m| m.as_str()) {
        run.machinery(format!("checked-profile child: {}", m));
    }
    let mut secs = run.sections.lock().unwrap();
    for s in j.get("sections").and_then(|s| s.as_arr()).unwrap_or(&[]) {
        let g = |k: &str| s.get(k).and_then(|x| x.as_i()).unwrap_or(0) as u64;
        let sec = Section {
            name: format!("[{} profile] {}", expect, s.get("name").and_then(|x| x.as_str()).unwrap_or("")),
            exhaustive: matches!(s.get("exhaustive"), Some(J::Bool(true))),
            bound: s.get("bound").and_then(|x| x.as_str()).unwrap_or("").to_string(),
            states: g("states"),
            transitions: g("transitions"),
            validated: g("validated"),
            nontrivial: g("nontrivial"),
            digest: u64::from_str_radix(s.get("digest").and_then(|x| x.as_str()).unwrap_or("0"), 16).unwrap_or(0),
            wall_s: 0.0,
        };
        if !run.silent {
            eprintln!("[{}] {:<58} states={:<11} transitions={:<13} nontrivial={:<11} {}", run.prop, sec.name, sec.states, sec.transitions, sec.nontrivial, if sec.exhaustive { "exhaustive" } else { "bounded" });
        }
        secs.push(sec);
    }
    let mut viols = run.viols.lock().unwrap();
    for v in j.get("violations").and_then(|s| s.as_arr()).unwrap_or(&[]) {
        let g = |k: &str| v.get(k).and_then(|x| x.as_str()).unwrap_or("").to_string();
        viols.push(Violation { key: g("key"), sig: g("sig"), case: g("case"), expected: g("expected"), observed: g("observed") });
    }
    run.viol_count.fetch_add(j.get("viol_count").and_then(|x| x.as_i()).unwrap_or(0) as u64, Ordering::Relaxed);
    let mut outcomes = run.outcomes.lock().unwrap();
    if let Some(J::Obj(o)) = j.get("outcomes") {
        for (k, v) in o {
            *outcomes.entry(format!("{}:{}", expect, k)).or_insert(0) += v.as_i().unwrap_or(0) as u64;
        }
    }
    if !run.silent {
        eprintln!("[{}] checked-profile child finished in {:.1}s", run.prop, t0.elapsed().as_secs_f64());
    }
    Some(j)
}

/// Parallel map preserving order (used by the breadth-first explorations to expand a frontier).
pub fn par_map<T: Sync, R: Send>(items: &[T], f: impl Fn(&T) -> R + Sync) -> Vec<R> {
    let nw = num_workers().min(items.len().max(1));
    let chunk = (items.len() + nw - 1) / nw.max(1);
    if items.is_empty() {
        return Vec::new();
    }
    let mut out: Vec<Vec<R>> = Vec::new();
    std::thread::scope(|sc| {
        let mut hs = Vec::new();
        for part in items.chunks(chunk.max(1)) {
            let f = &f;
            hs.push(sc.spawn(move || part.iter().map(|x| f(x)).collect::<Vec<R>>()));
        }
        for h in hs {
            match h.join() {
                Ok(v) => out.push(v),
                Err(e) => std::panic::resume_unwind(e),
            }
        }
    });
    out.into_iter().flatten().collect()
}
