//! Minimal JSON value, writer and parser (no external crates are available offline
//! beyond the cargo cache; the harness keeps its trusted base small).

use std::collections::BTreeMap;
use std::fmt::Write;

#[derive(Clone, Debug, PartialEq)]
pub enum J {
    Null,
    Bool(bool),
    Int(i128),
    Num(f64),
    Str(String),
    Arr(Vec<J>),
    Obj(Vec<(String, J)>),
}

impl J {
    pub fn obj() -> J {
        J::Obj(Vec::new())
    }
    pub fn s(v: impl Into<String>) -> J {
        J::Str(v.into())
    }
    pub fn i(v: impl TryInto<i128>) -> J {
        J::Int(v.try_into().ok().expect("int"))
    }
    pub fn set(&mut self, k: &str, v: J) -> &mut J {
        if let J::Obj(o) = self {
            if let Some(e) = o.iter_mut().find(|e| e.0 == k) {
                e.1 = v;
            } else {
                o.push((k.to_string(), v));
            }
        } else {
            panic!("set on non-object");
        }
        self
    }
    pub fn with(mut self, k: &str, v: J) -> J {
        self.set(k, v);
        self
    }
    pub fn get(&self, k: &str) -> Option<&J> {
        match self {
            J::Obj(o) => o.iter().find(|e| e.0 == k).map(|e| &e.1),
            _ => None,
        }
    }
    pub fn as_str(&self) -> Option<&str> {
        match self {
            J::Str(s) => Some(s),
            _ => None,
        }
    }
    pub fn as_arr(&self) -> Option<&[J]> {
        match self {
            J::Arr(a) => Some(a),
            _ => None,
        }
    }
    pub fn as_i(&self) -> Option<i128> {
        match self {
            J::Int(i) => Some(*i),
            _ => None,
        }
    }
    pub fn from_map(m: &BTreeMap<String, u64>) -> J {
        J::Obj(m.iter().map(|(k, v)| (k.clone(), J::i(*v))).collect())
    }

    pub fn dump(&self) -> String {
        let mut s = String::new();
        self.write(&mut s, 0);
        s.push('\n');
        s
    }

    fn write(&self, out: &mut String, ind: usize) {
        match self {
            J::Null => out.push_str("null"),
            J::Bool(b) => out.push_str(if *b { "true" } else { "false" }),
            J::Int(i) => {
                let _ = write!(out, "{}", i);
            }
            J::Num(f) => {
                if f.is_finite() {
                    let _ = write!(out, "{:.3}", f);
                } else {
                    out.push_str("0");
                }
            }
            J::Str(s) => write_str(out, s),
            J::Arr(a) => {
                if a.is_empty() {
                    out.push_str("[]");
                    return;
                }
                let simple = a.iter().all(|x| !matches!(x, J::Arr(_) | J::Obj(_)));
                out.push('[');
                for (k, x) in a.iter().enumerate() {
                    if k > 0 {
                        out.push(',');
                    }
                    if simple {
                        if k > 0 {
                            out.push(' ');
                        }
                    } else {
                        out.push('\n');
                        out.push_str(&" ".repeat(ind + 1));
                    }
                    x.write(out, ind + 1);
                }
                if !simple {
                    out.push('\n');
                    out.push_str(&" ".repeat(ind));
                }
                out.push(']');
            }
            J::Obj(o) => {
                if o.is_empty() {
                    out.push_str("{}");
                    return;
                }
                out.push('{');
                for (k, (key, x)) in o.iter().enumerate() {
                    if k > 0 {
                        out.push(',');
                    }
                    out.push('\n');
                    out.push_str(&" ".repeat(ind + 1));
                    write_str(out, key);
                    out.push_str(": ");
                    x.write(out, ind + 1);
                }
                out.push('\n');
                out.push_str(&" ".repeat(ind));
                out.push('}');
            }
        }
    }
}

fn write_str(out: &mut String, s: &str) {
    out.push('"');
    for c in s.chars() {
        match c {
            '"' => out.push_str("\\\""),
            '\\' => out.push_str("\\\\"),
            '\n' => out.push_str("\\n"),
            '\r' => out.push_str("\\r"),
            '\t' => out.push_str("\\t"),
            c if (c as u32) < 0x20 => {
                let _ = write!(out, "\\u{:04x}", c as u32);
            }
            c => out.push(c),
        }
    }
    out.push('"');
}

pub fn parse(text: &str) -> Result<J, String> {
    let b: Vec<char> = text.chars().collect();
    let mut p = 0usize;
    let v = pv(&b, &mut p)?;
    ws(&b, &mut p);
    if p != b.len() {
        return Err(format!("trailing data at {}", p));
    }
    Ok(v)
}

fn ws(b: &[char], p: &mut usize) {
    while *p < b.len() && b[*p].is_whitespace() {
        *p += 1;
    }
}

fn pv(b: &[char], p: &mut usize) -> Result<J, String> {
    ws(b, p);
    if *p >= b.len() {
        return Err("eof".into());
    }
    match b[*p] {
        '{' => {
            *p += 1;
            let mut o = Vec::new();
            ws(b, p);
            if *p < b.len() && b[*p] == '}' {
                *p += 1;
                return Ok(J::Obj(o));
            }
            loop {
                ws(b, p);
                let k = match pv(b, p)? {
                    J::Str(s) => s,
                    _ => return Err("key".into()),
                };
                ws(b, p);
                if *p >= b.len() || b[*p] != ':' {
                    return Err("colon".into());
                }
                *p += 1;
                let v = pv(b, p)?;
                o.push((k, v));
                ws(b, p);
                if *p < b.len() && b[*p] == ',' {
                    *p += 1;
                    continue;
                }
                if *p < b.len() && b[*p] == '}' {
                    *p += 1;
                    return Ok(J::Obj(o));
                }
                return Err(format!("object at {}", p));
            }
        }
        '[' => {
            *p += 1;
            let mut a = Vec::new();
            ws(b, p);
            if *p < b.len() && b[*p] == ']' {
                *p += 1;
                return Ok(J::Arr(a));
            }
            loop {
                a.push(pv(b, p)?);
                ws(b, p);
                if *p < b.len() && b[*p] == ',' {
                    *p += 1;
                    continue;
                }
                if *p < b.len() && b[*p] == ']' {
                    *p += 1;
                    return Ok(J::Arr(a));
                }
                return Err(format!("array at {}", p));
            }
        }
        '"' => {
            *p += 1;
            let mut s = String::new();
            while *p < b.len() {
                let c = b[*p];
                *p += 1;
                match c {
                    '"' => return Ok(J::Str(s)),
                    '\\' => {
                        let e = b[*p];
                        *p += 1;
                        match e {
                            'n' => s.push('\n'),
                            't' => s.push('\t'),
                            'r' => s.push('\r'),
                            'u' => {
                                let h: String = b[*p..*p + 4].iter().collect();
                                *p += 4;
                                let v = u32::from_str_radix(&h, 16).map_err(|e| e.to_string())?;
                                s.push(char::from_u32(v).unwrap_or('?'));
                            }
                            o => s.push(o),
                        }
                    }
                    c => s.push(c),
                }
            }
            Err("unterminated string".into())
        }
        't' if b[*p..].starts_with(&['t', 'r', 'u', 'e']) => {
            *p += 4;
            Ok(J::Bool(true))
        }
        'f' if b[*p..].starts_with(&['f', 'a', 'l', 's', 'e']) => {
            *p += 5;
            Ok(J::Bool(false))
        }
        'n' if b[*p..].starts_with(&['n', 'u', 'l', 'l']) => {
            *p += 4;
            Ok(J::Null)
        }
        _ => {
            let st = *p;
            while *p < b.len() && (b[*p].is_ascii_digit() || "+-.eE".contains(b[*p])) {
                *p += 1;
            }
            let t: String = b[st..*p].iter().collect();
            if let Ok(i) = t.parse::<i128>() {
                Ok(J::Int(i))
            } else {
                t.parse::<f64>().map(J::Num).map_err(|e| format!("number {:?}: {}", t, e))
            }
        }
    }
}
