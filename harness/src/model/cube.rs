//! Reference models for the two-level forms: a cube is a set of literals evaluated by
//! definition, an exclusive cube a set of variables with a parity; implication, intersection
//! and equality are decided by enumerating assignments on the support — never by mask algebra.
//! Also the evaluator of the printed formulas (C16).

use std::collections::BTreeSet;

#[derive(Clone, Debug, PartialEq, Eq, PartialOrd, Ord, Hash)]
pub struct CubeM {
    pub pos: BTreeSet<usize>,
    pub neg: BTreeSet<usize>,
}

impl CubeM {
    pub fn one() -> CubeM {
        CubeM { pos: BTreeSet::new(), neg: BTreeSet::new() }
    }
    pub fn from_lits(pos: &[usize], neg: &[usize]) -> CubeM {
        CubeM { pos: pos.iter().copied().collect(), neg: neg.iter().copied().collect() }
    }
    pub fn from_masks(pos: u32, neg: u32) -> CubeM {
        CubeM { pos: (0..32).filter(|v| (pos >> v) & 1 != 0).collect(), neg: (0..32).filter(|v| (neg >> v) & 1 != 0).collect() }
    }
    pub fn contradictory(&self) -> bool {
        self.pos.iter().any(|v| self.neg.contains(v))
    }
    /// true exactly on the assignments that set all positive and clear all negative variables
    pub fn value(&self, m: u64) -> bool {
        self.pos.iter().all(|v| (m >> v) & 1 == 1) && self.neg.iter().all(|v| (m >> v) & 1 == 0)
    }
    pub fn and(&self, o: &CubeM) -> CubeM {
        CubeM { pos: self.pos.union(&o.pos).copied().collect(), neg: self.neg.union(&o.neg).copied().collect() }
    }
    pub fn support(&self) -> BTreeSet<usize> {
        self.pos.union(&self.neg).copied().collect()
    }
    pub fn num_lits(&self) -> usize {
        if self.contradictory() {
            0
        } else {
            self.pos.len() + self.neg.len()
        }
    }
}

/// all assignments over the variables of `sup` (other variables = `background` bits)
pub fn assignments(sup: &BTreeSet<usize>, background: u64) -> Vec<u64> {
    let mut vars: Vec<usize> = sup.iter().copied().collect();
    if vars.len() > 12 {
        // wide supports (only the 32-variable alphabets): the six lowest and six highest
        // variables are enumerated, the others stay at the background value
        let hi: Vec<usize> = vars[vars.len() - 6..].to_vec();
        vars.truncate(6);
        vars.extend(hi);
    }
    let mut out = Vec::new();
    for k in 0..(1u64 << vars.len()) {
        let mut m = background;
        for (i, v) in vars.iter().enumerate() {
            if (k >> i) & 1 != 0 {
                m |= 1u64 << v;
            } else {
                m &= !(1u64 << v);
            }
        }
        out.push(m);
    }
    out
}

pub fn sem_implies(a: &CubeM, b: &CubeM) -> bool {
    let sup: BTreeSet<usize> = a.support().union(&b.support()).copied().collect();
    assignments(&sup, 0).iter().all(|m| !a.value(*m) || b.value(*m))
}

pub fn sem_intersects(a: &CubeM, b: &CubeM) -> bool {
    let sup: BTreeSet<usize> = a.support().union(&b.support()).copied().collect();
    assignments(&sup, 0).iter().any(|m| a.value(*m) && b.value(*m))
}

pub fn sem_equal(a: &CubeM, b: &CubeM) -> bool {
    let sup: BTreeSet<usize> = a.support().union(&b.support()).copied().collect();
    assignments(&sup, 0).iter().all(|m| a.value(*m) == b.value(*m))
}

#[derive(Clone, Debug, PartialEq, Eq, PartialOrd, Ord, Hash)]
pub struct EcubeM {
    pub vars: BTreeSet<usize>,
    pub xnor: bool,
}

impl EcubeM {
    pub fn from_mask(vars: u32, xnor: bool) -> EcubeM {
        EcubeM { vars: (0..32).filter(|v| (vars >> v) & 1 != 0).collect(), xnor }
    }
    /// parity of its variables under the assignment, complemented when XNOR
    pub fn value(&self, m: u64) -> bool {
        let ones = self.vars.iter().filter(|v| (m >> **v) & 1 == 1).count();
        (ones % 2 == 1) != self.xnor
    }
    pub fn xor(&self, o: &EcubeM) -> EcubeM {
        EcubeM { vars: self.vars.symmetric_difference(&o.vars).copied().collect(), xnor: self.xnor != o.xnor }
    }
}

// ---------------------------------------------------------------------------------------
// Formula grammar of the printed forms:
//   or   := xor ('|' xor)*            '|' binds loosest
//   xor  := and ('^' and)*
//   and  := atom+                      juxtaposition
//   atom := '!' atom | 'x' digits | '0' | '1'
// Variables are read with maximal munch (x10 is variable 10).

#[derive(Clone, Debug)]
pub enum Formula {
    Const(bool),
    Var(usize),
    Not(Box<Formula>),
    And(Vec<Formula>),
    Xor(Vec<Formula>),
    Or(Vec<Formula>),
}

impl Formula {
    pub fn eval(&self, m: u64) -> bool {
        match self {
            Formula::Const(b) => *b,
            Formula::Var(v) => (m >> v) & 1 == 1,
            Formula::Not(f) => !f.eval(m),
            Formula::And(v) => v.iter().all(|f| f.eval(m)),
            Formula::Xor(v) => v.iter().fold(false, |a, f| a != f.eval(m)),
            Formula::Or(v) => v.iter().any(|f| f.eval(m)),
        }
    }
    /// variables in order of appearance
    pub fn vars_in_order(&self, out: &mut Vec<usize>) {
        match self {
            Formula::Const(_) => {}
            Formula::Var(v) => out.push(*v),
            Formula::Not(f) => f.vars_in_order(out),
            Formula::And(v) | Formula::Xor(v) | Formula::Or(v) => v.iter().for_each(|f| f.vars_in_order(out)),
        }
    }
    /// the top-level terms (operands of the outermost | or ^, or the formula itself)
    pub fn terms(&self) -> Vec<&Formula> {
        match self {
            Formula::Or(v) => v.iter().collect(),
            _ => vec![self],
        }
    }
}

pub fn parse_formula(s: &str) -> Result<Formula, String> {
    let b: Vec<char> = s.chars().collect();
    let mut p = 0usize;
    let f = p_or(&b, &mut p)?;
    skip(&b, &mut p);
    if p != b.len() {
        return Err(format!("trailing text at {} in {:?}", p, s));
    }
    Ok(f)
}

fn skip(b: &[char], p: &mut usize) {
    while *p < b.len() && b[*p] == ' ' {
        *p += 1;
    }
}

fn p_or(b: &[char], p: &mut usize) -> Result<Formula, String> {
    let mut v = vec![p_xor(b, p)?];
    loop {
        skip(b, p);
        if *p < b.len() && b[*p] == '|' {
            *p += 1;
            v.push(p_xor(b, p)?);
        } else {
            break;
        }
    }
    Ok(if v.len() == 1 { v.pop().unwrap() } else { Formula::Or(v) })
}

fn p_xor(b: &[char], p: &mut usize) -> Result<Formula, String> {
    let mut v = vec![p_and(b, p)?];
    loop {
        skip(b, p);
        if *p < b.len() && b[*p] == '^' {
            *p += 1;
            v.push(p_and(b, p)?);
        } else {
            break;
        }
    }
    Ok(if v.len() == 1 { v.pop().unwrap() } else { Formula::Xor(v) })
}

fn p_and(b: &[char], p: &mut usize) -> Result<Formula, String> {
    skip(b, p);
    let mut v = vec![p_atom(b, p)?];
    // juxtaposition: atoms follow each other without a space
    while *p < b.len() && (b[*p] == 'x' || b[*p] == '!' || b[*p] == '0' || b[*p] == '1') {
        v.push(p_atom(b, p)?);
    }
    Ok(if v.len() == 1 { v.pop().unwrap() } else { Formula::And(v) })
}

fn p_atom(b: &[char], p: &mut usize) -> Result<Formula, String> {
    if *p >= b.len() {
        return Err("unexpected end of formula".into());
    }
    match b[*p] {
        '!' => {
            *p += 1;
            Ok(Formula::Not(Box::new(p_atom(b, p)?)))
        }
        'x' => {
            *p += 1;
            let st = *p;
            while *p < b.len() && b[*p].is_ascii_digit() {
                *p += 1;
            }
            if st == *p {
                return Err("variable without index".into());
            }
            let t: String = b[st..*p].iter().collect();
            Ok(Formula::Var(t.parse::<usize>().map_err(|e| e.to_string())?))
        }
        '0' => {
            *p += 1;
            Ok(Formula::Const(false))
        }
        '1' => {
            *p += 1;
            Ok(Formula::Const(true))
        }
        c => Err(format!("unexpected character {:?} at {}", c, p)),
    }
}

pub fn self_check() -> Result<(), String> {
    let f = parse_formula("x1x0 ^ !x10 | 1 ^ x2 | 0")?;
    // (x1 & x0) ^ !x10  |  1 ^ x2  |  0
    for m in 0..(1u64 << 11) {
        let want = (((m >> 1) & 1 == 1 && m & 1 == 1) != ((m >> 10) & 1 == 0)) || ((m >> 2) & 1 == 0);
        if f.eval(m) != want {
            return Err("formula evaluator".into());
        }
    }
    let a = CubeM::from_lits(&[0, 2], &[1]);
    let b = CubeM::from_lits(&[0], &[]);
    if !sem_implies(&a, &b) || sem_implies(&b, &a) || !sem_intersects(&a, &b) || sem_intersects(&a, &CubeM::from_lits(&[1], &[])) {
        return Err("cube semantics".into());
    }
    if !sem_implies(&CubeM::from_lits(&[3], &[3]), &a) {
        return Err("contradiction implies everything".into());
    }
    Ok(())
}
