//! Reference model of the P / N / NPN groups acting on truth tables.
//!
//! A group element is a certificate (perm, mask): the image g of f is
//!     g(y) = f(x) xor mask[n],   x[perm[i]] = y[i] xor mask[i]   for all i < n
//! (the convention of property C05). Permutations are enumerated in lexicographic order
//! and polarities by a binary counter — deliberately not the Steinhaus-Johnson-Trotter /
//! Gray walks of the subject.

use super::tt::{nbits, TT};

#[derive(Clone, Copy, PartialEq, Eq, Debug)]
pub enum Grp {
    P,
    N,
    Npn,
}

impl Grp {
    pub const ALL: [Grp; 3] = [Grp::P, Grp::N, Grp::Npn];
    pub fn name(self) -> &'static str {
        match self {
            Grp::P => "p",
            Grp::N => "n",
            Grp::Npn => "npn",
        }
    }
    pub fn from_name(s: &str) -> Option<Grp> {
        Grp::ALL.iter().copied().find(|g| g.name() == s)
    }
    pub fn order(self, n: usize) -> u64 {
        let fact: u64 = (1..=n as u64).product();
        match self {
            Grp::P => fact,
            Grp::N => 1u64 << (n + 1),
            Grp::Npn => fact << (n + 1),
        }
    }
}

/// all permutations of 0..n in lexicographic order
pub fn permutations(n: usize) -> Vec<Vec<u8>> {
    let mut out = Vec::new();
    let mut p: Vec<u8> = (0..n as u8).collect();
    loop {
        out.push(p.clone());
        // next lexicographic permutation
        if n < 2 {
            break;
        }
        let mut i = n - 1;
        while i > 0 && p[i - 1] >= p[i] {
            i -= 1;
        }
        if i == 0 {
            break;
        }
        let mut j = n - 1;
        while p[j] <= p[i - 1] {
            j -= 1;
        }
        p.swap(i - 1, j);
        p[i..].reverse();
    }
    out
}

pub fn is_permutation(perm: &[u8], n: usize) -> bool {
    if perm.len() != n {
        return false;
    }
    let mut seen = vec![false; n];
    for p in perm {
        if (*p as usize) >= n || seen[*p as usize] {
            return false;
        }
        seen[*p as usize] = true;
    }
    true
}

/// x = the assignment with x[perm[i]] = z[i]
#[inline]
pub fn permute_index(z: usize, perm: &[u8]) -> usize {
    let mut x = 0usize;
    for (i, p) in perm.iter().enumerate() {
        x |= ((z >> i) & 1) << *p;
    }
    x
}

/// The image of f under the certificate (perm, mask), by the definition.
pub fn apply(f: &TT, perm: &[u8], mask: u32) -> TT {
    let n = f.n;
    let min = (mask as usize) & (nbits(n) - 1);
    let out = (mask >> n) & 1 != 0;
    TT::from_fn(n, |y| f.get(permute_index(y ^ min, perm)) != out)
}

/// Minimum of the orbit of f (numeric order), with one certificate reaching it, and the
/// number of group elements enumerated. Candidates are compared from the all-ones assignment
/// downwards with early exit — an optimisation of the numeric comparison, nothing else.
pub fn orbit_min(f: &TT, g: Grp) -> (TT, Vec<u8>, u32, u64) {
    let n = f.n;
    let nb = nbits(n);
    let perms = if g == Grp::N { vec![(0..n as u8).collect::<Vec<u8>>()] } else { permutations(n) };
    let (masks, outs): (usize, usize) = if g == Grp::P { (1, 1) } else { (nb, 2) };
    let mut best: Vec<bool> = (0..nb).map(|y| f.get(y)).collect();
    let mut best_cert: (Vec<u8>, u32) = ((0..n as u8).collect(), 0);
    let mut count = 0u64;
    let mut h: Vec<bool> = vec![false; nb];
    for perm in &perms {
        for (z, hz) in h.iter_mut().enumerate() {
            *hz = f.get(permute_index(z, perm));
        }
        for m in 0..masks {
            for o in 0..outs {
                count += 1;
                let out = o == 1;
                // candidate(y) = h[y ^ m] ^ out ; compare with best from the top
                let mut smaller = false;
                for y in (0..nb).rev() {
                    let c = h[y ^ m] != out;
                    if c != best[y] {
                        smaller = !c;
                        break;
                    }
                }
                if smaller {
                    for (y, b) in best.iter_mut().enumerate() {
                        *b = h[y ^ m] != out;
                    }
                    best_cert = (perm.clone(), (m as u32) | ((o as u32) << n));
                }
            }
        }
    }
    (TT::from_fn(n, |y| best[y]), best_cert.0, best_cert.1, count)
}

/// The whole orbit (list of images), for small n.
pub fn orbit(f: &TT, g: Grp) -> Vec<TT> {
    let n = f.n;
    let perms = if g == Grp::N { vec![(0..n as u8).collect::<Vec<u8>>()] } else { permutations(n) };
    let masks: Vec<u32> = if g == Grp::P { vec![0] } else { (0..(1u32 << (n + 1))).collect() };
    let mut v = Vec::new();
    for p in &perms {
        for m in &masks {
            v.push(apply(f, p, *m));
        }
    }
    v
}

/// Generators of the group as (perm, mask) certificates: adjacent transpositions, single
/// input complementations, output complementation.
pub fn generators(n: usize, g: Grp) -> Vec<(Vec<u8>, u32)> {
    let id: Vec<u8> = (0..n as u8).collect();
    let mut v = Vec::new();
    if g != Grp::N {
        for i in 0..n.saturating_sub(1) {
            let mut p = id.clone();
            p.swap(i, i + 1);
            v.push((p, 0));
        }
    }
    if g != Grp::P {
        for i in 0..n {
            v.push((id.clone(), 1u32 << i));
        }
        v.push((id.clone(), 1u32 << n));
    }
    v
}

pub fn self_check() -> Result<(), String> {
    for n in 0..=3usize {
        let perms = permutations(n);
        let fact: usize = (1..=n).product();
        if perms.len() != fact {
            return Err("permutation count".into());
        }
        for x in 0..(1u64 << nbits(n)) {
            let f = TT::from_u64(n, x);
            for g in Grp::ALL {
                let orb = orbit(&f, g);
                if orb.len() as u64 != g.order(n) {
                    return Err("orbit list length".into());
                }
                let mut d = orb.clone();
                d.sort_by(|a, b| a.cmp_num(b));
                d.dedup();
                if g.order(n) % d.len() as u64 != 0 {
                    return Err("orbit size does not divide the group order".into());
                }
                let (m, perm, mask, cnt) = orbit_min(&f, g);
                if cnt != g.order(n) || m != d[0] || apply(&f, &perm, mask) != m {
                    return Err(format!("orbit_min n={} x={:x} {:?}", n, x, g));
                }
                // closed under generators
                for (p, mk) in generators(n, g) {
                    let img = apply(&f, &p, mk);
                    if !d.contains(&img) {
                        return Err("orbit not closed under a generator".into());
                    }
                }
            }
        }
    }
    Ok(())
}
