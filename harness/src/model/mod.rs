pub mod alpha;
pub mod group;
pub mod tt;
