pub mod alpha;
pub mod tt;
