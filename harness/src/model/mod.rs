pub mod alpha;
pub mod bdd;
pub mod group;
pub mod tt;
