pub mod alpha;
pub mod bdd;
pub mod cube;
pub mod group;
pub mod tt;
