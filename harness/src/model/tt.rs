//! Reference model of a truth table: a function from assignments to booleans.
//! The `u64` words are only an encoding (bit m of the table = f(m)); every operation is
//! defined per assignment, by an index map or a pointwise function taken from the
//! sentence of the property. Nothing here shares code, masks or tricks with the subject.

use std::cmp::Ordering;

#[derive(Clone, PartialEq, Eq, Hash, Debug)]
pub struct TT {
    pub n: usize,
    pub w: Vec<u64>,
}

pub fn nwords(n: usize) -> usize {
    if n <= 6 {
        1
    } else {
        1usize << (n - 6)
    }
}

pub fn nbits(n: usize) -> usize {
    1usize << n
}

/// Is `(n, words)` a well-formed block view: right length and no bit at a position >= 2^n ?
pub fn well_formed(n: usize, w: &[u64]) -> bool {
    if w.len() != nwords(n) {
        return false;
    }
    if n < 6 {
        // bits at positions 2^n..63 must be clear; tested bit by bit
        for p in nbits(n)..64 {
            if (w[0] >> p) & 1 != 0 {
                return false;
            }
        }
    }
    true
}

impl TT {
    pub fn zero(n: usize) -> TT {
        TT { n, w: vec![0; nwords(n)] }
    }

    pub fn from_fn(n: usize, f: impl Fn(usize) -> bool) -> TT {
        let mut t = TT::zero(n);
        for m in 0..nbits(n) {
            if f(m) {
                t.w[m >> 6] |= 1u64 << (m & 63);
            }
        }
        t
    }

    /// Adopt a block view; `None` if it is not well-formed.
    pub fn from_words(n: usize, w: &[u64]) -> Option<TT> {
        if well_formed(n, w) {
            Some(TT { n, w: w.to_vec() })
        } else {
            None
        }
    }

    /// Adopt the low 2^n bits of a word (n <= 6).
    pub fn from_u64(n: usize, x: u64) -> TT {
        assert!(n <= 6);
        TT::from_fn(n, |m| (x >> m) & 1 != 0)
    }

    #[inline]
    pub fn get(&self, m: usize) -> bool {
        (self.w[m >> 6] >> (m & 63)) & 1 != 0
    }

    pub fn set(&mut self, m: usize, v: bool) {
        if v {
            self.w[m >> 6] |= 1u64 << (m & 63);
        } else {
            self.w[m >> 6] &= !(1u64 << (m & 63));
        }
    }

    pub fn bits(&self) -> usize {
        nbits(self.n)
    }

    /// out(y) = self(pi(y))
    pub fn map_index(&self, pi: impl Fn(usize) -> usize) -> TT {
        TT::from_fn(self.n, |y| self.get(pi(y)))
    }

    pub fn pointwise(a: &TT, b: &TT, f: impl Fn(bool, bool) -> bool) -> TT {
        assert_eq!(a.n, b.n);
        TT::from_fn(a.n, |m| f(a.get(m), b.get(m)))
    }

    pub fn not(&self) -> TT {
        TT::from_fn(self.n, |m| !self.get(m))
    }

    /// g(x) = f(x with bit i complemented)
    pub fn flip(&self, i: usize) -> TT {
        self.map_index(|y| y ^ (1usize << i))
    }

    /// g(x) = f(x with bits i and j exchanged)
    pub fn swap(&self, i: usize, j: usize) -> TT {
        self.map_index(|y| exchange_bits(y, i, j))
    }

    /// f|x_i=0 as an n-variable function (independent of x_i)
    pub fn cof0(&self, i: usize) -> TT {
        self.map_index(|y| y & !(1usize << i))
    }

    /// f|x_i=1 as an n-variable function (independent of x_i)
    pub fn cof1(&self, i: usize) -> TT {
        self.map_index(|y| y | (1usize << i))
    }

    /// c0 where x_i = 0, c1 where x_i = 1
    pub fn from_cofactors(c0: &TT, c1: &TT, i: usize) -> TT {
        assert_eq!(c0.n, c1.n);
        TT::from_fn(c0.n, |y| if (y >> i) & 1 != 0 { c1.get(y) } else { c0.get(y) })
    }

    pub fn is_const(&self, v: bool) -> bool {
        (0..self.bits()).all(|m| self.get(m) == v)
    }

    pub fn count_ones(&self) -> usize {
        (0..self.bits()).filter(|m| self.get(*m)).count()
    }

    pub fn depends_on(&self, i: usize) -> bool {
        (0..self.bits()).any(|m| self.get(m) != self.get(m ^ (1usize << i)))
    }

    /// Numeric comparison of two tables of the same n as 2^n-bit unsigned numbers whose
    /// most significant bit is the value on the all-ones assignment.
    pub fn cmp_num(&self, o: &TT) -> Ordering {
        assert_eq!(self.n, o.n);
        for m in (0..self.bits()).rev() {
            match (self.get(m), o.get(m)) {
                (false, true) => return Ordering::Less,
                (true, false) => return Ordering::Greater,
                _ => {}
            }
        }
        Ordering::Equal
    }

    /// (n first, then numeric)
    pub fn cmp_full(&self, o: &TT) -> Ordering {
        if self.n != o.n {
            return self.n.cmp(&o.n);
        }
        self.cmp_num(o)
    }

    /// Numeric successor modulo 2^(2^n); the flag tells whether it wrapped to zero.
    pub fn succ(&self) -> (TT, bool) {
        let mut t = self.clone();
        for m in 0..self.bits() {
            if t.get(m) {
                t.set(m, false);
            } else {
                t.set(m, true);
                return (t, false);
            }
        }
        (t, true)
    }

    /// Fixed-width hexadecimal rendering, most significant digit first, digit by digit.
    pub fn hex(&self) -> String {
        let nb = self.bits();
        let ndig = std::cmp::max(1, nb / 4);
        let mut s = String::new();
        for d in (0..ndig).rev() {
            let mut v = 0u32;
            for k in 0..4 {
                let m = 4 * d + k;
                if m < nb && self.get(m) {
                    v |= 1 << k;
                }
            }
            s.push(std::char::from_digit(v, 16).unwrap());
        }
        s
    }

    /// Fixed-width binary rendering, most significant bit first.
    pub fn bin(&self) -> String {
        (0..self.bits()).rev().map(|m| if self.get(m) { '1' } else { '0' }).collect()
    }

    /// The function denoted by a string of hex digits (most significant first), if the
    /// string has exactly the fixed width, only hex digits, and a value below 2^(2^n).
    pub fn parse_hex(n: usize, s: &str) -> Option<TT> {
        let nb = nbits(n);
        let ndig = std::cmp::max(1, nb / 4);
        let chars: Vec<char> = s.chars().collect();
        if chars.len() != ndig {
            return None;
        }
        let mut t = TT::zero(n);
        for (k, c) in chars.iter().enumerate() {
            let d = ndig - 1 - k;
            let v = c.to_digit(16)?;
            if !c.is_ascii() {
                return None;
            }
            for b in 0..4 {
                if (v >> b) & 1 != 0 {
                    let m = 4 * d + b;
                    if m >= nb {
                        return None;
                    }
                    t.set(m, true);
                }
            }
        }
        Some(t)
    }
}

#[inline]
pub fn exchange_bits(y: usize, i: usize, j: usize) -> usize {
    let bi = (y >> i) & 1;
    let bj = (y >> j) & 1;
    if bi == bj {
        y
    } else {
        y ^ (1usize << i) ^ (1usize << j)
    }
}

// ---------------------------------------------------------------------------------------
// Compiled index maps for complete sweeps of n <= 5 (tables fit a u32): a generic
// bit-gather evaluator through byte lookup tables; it knows nothing about which map it runs.

pub struct Gather32 {
    t: Box<[[u32; 256]; 4]>,
}

impl Gather32 {
    /// out(y) = in(pi(y)) for y < 2^n
    pub fn compile(n: usize, pi: impl Fn(usize) -> usize) -> Gather32 {
        assert!(n <= 5);
        let mut t = Box::new([[0u32; 256]; 4]);
        for y in 0..nbits(n) {
            let p = pi(y);
            assert!(p < nbits(n));
            let (byte, bit) = (p / 8, p % 8);
            for b in 0..256usize {
                if (b >> bit) & 1 != 0 {
                    t[byte][b] |= 1u32 << y;
                }
            }
        }
        Gather32 { t }
    }

    #[inline]
    pub fn apply(&self, x: u32) -> u32 {
        self.t[0][(x & 0xff) as usize] | self.t[1][((x >> 8) & 0xff) as usize] | self.t[2][((x >> 16) & 0xff) as usize] | self.t[3][(x >> 24) as usize]
    }
}

/// mask of the low 2^n bits (n <= 5), computed by counting
pub fn low_mask32(n: usize) -> u32 {
    let mut m = 0u32;
    for p in 0..nbits(n) {
        m |= 1 << p;
    }
    m
}

/// Self-checks of the model on n <= 3 (a model bug must show as a machinery error).
pub fn self_check() -> Result<(), String> {
    for n in 0..=3usize {
        for x in 0..(1u64 << nbits(n)) {
            let t = TT::from_u64(n, x);
            if t.not().not() != t {
                return Err("not∘not != id".into());
            }
            if TT::parse_hex(n, &t.hex()).as_ref() != Some(&t) {
                return Err(format!("hex round trip n={} x={:x}", n, x));
            }
            for i in 0..n {
                if t.flip(i).flip(i) != t {
                    return Err("flip∘flip != id".into());
                }
                let (c0, c1) = (t.cof0(i), t.cof1(i));
                if c0.depends_on(i) || c1.depends_on(i) {
                    return Err("cofactor depends on its variable".into());
                }
                if TT::from_cofactors(&c0, &c1, i) != t {
                    return Err("shannon".into());
                }
                for j in 0..n {
                    if t.swap(i, j).swap(i, j) != t {
                        return Err("swap∘swap != id".into());
                    }
                    if t.swap(i, j) != t.swap(j, i) {
                        return Err("swap symmetric".into());
                    }
                    let g = Gather32::compile(n, |y| exchange_bits(y, i, j));
                    if TT::from_u64(n, g.apply(x as u32) as u64) != t.swap(i, j) {
                        return Err("gather vs map_index".into());
                    }
                }
            }
            let (s, wrapped) = t.succ();
            if wrapped != (x == (1u64 << nbits(n)) - 1) {
                return Err("succ wrap".into());
            }
            if !wrapped && (s.cmp_num(&t) != Ordering::Greater || s.w[0] != x + 1) {
                return Err("succ".into());
            }
        }
    }
    Ok(())
}
