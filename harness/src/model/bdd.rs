//! Textbook shared ROBDD with complemented edges (unique table, Shannon expansion from
//! variable n-1 at the root down to variable 0), used as the oracle of C07.

use super::tt::{nbits, TT};
use std::collections::HashMap;

/// an edge: (node id, complemented). Node 0 is the terminal ONE.
type Edge = (u32, bool);

pub struct Robdd {
    nodes: Vec<(usize, Edge, Edge)>, // (var, lo, hi); index 0 unused (terminal)
    unique: HashMap<(usize, Edge, Edge), u32>,
    memo: HashMap<(usize, Vec<bool>), Edge>,
}

impl Robdd {
    pub fn new() -> Robdd {
        Robdd { nodes: vec![(usize::MAX, (0, false), (0, false))], unique: HashMap::new(), memo: HashMap::new() }
    }

    fn mk(&mut self, var: usize, lo: Edge, hi: Edge) -> Edge {
        if lo == hi {
            return lo;
        }
        // normal form: the hi edge is never complemented
        if hi.1 {
            let e = self.mk(var, (lo.0, !lo.1), (hi.0, !hi.1));
            return (e.0, !e.1);
        }
        if let Some(id) = self.unique.get(&(var, lo, hi)) {
            return (*id, false);
        }
        let id = self.nodes.len() as u32;
        self.nodes.push((var, lo, hi));
        self.unique.insert((var, lo, hi), id);
        (id, false)
    }

    /// `bits`: the function of variables 0..level as its 2^level values
    fn build(&mut self, level: usize, bits: &[bool]) -> Edge {
        if level == 0 {
            return (0, !bits[0]); // ONE, complemented if the value is false
        }
        let key = (level, bits.to_vec());
        if let Some(e) = self.memo.get(&key) {
            return *e;
        }
        let half = bits.len() / 2;
        // variable level-1 is the most significant bit of the assignment index
        let lo = self.build(level - 1, &bits[..half]);
        let hi = self.build(level - 1, &bits[half..]);
        let e = self.mk(level - 1, lo, hi);
        self.memo.insert(key, e);
        e
    }

    pub fn add(&mut self, f: &TT) -> Edge {
        let bits: Vec<bool> = (0..nbits(f.n)).map(|m| f.get(m)).collect();
        self.build(f.n, &bits)
    }

    /// internal nodes reachable from the roots, not counting nodes that denote a literal
    pub fn count(&self, roots: &[Edge]) -> usize {
        let mut seen = vec![false; self.nodes.len()];
        let mut stack: Vec<u32> = roots.iter().map(|e| e.0).collect();
        let mut cnt = 0;
        while let Some(id) = stack.pop() {
            if id == 0 || seen[id as usize] {
                continue;
            }
            seen[id as usize] = true;
            let (_, lo, hi) = self.nodes[id as usize];
            let literal = lo.0 == 0 && hi.0 == 0; // both children terminal (and different): x_var or its complement
            if !literal {
                cnt += 1;
            }
            stack.push(lo.0);
            stack.push(hi.0);
        }
        cnt
    }
}

pub fn shared_size(fs: &[TT]) -> usize {
    let mut b = Robdd::new();
    let roots: Vec<Edge> = fs.iter().map(|f| b.add(f)).collect();
    b.count(&roots)
}

pub fn self_check() -> Result<(), String> {
    for n in 0..=3usize {
        for x in 0..(1u64 << nbits(n)) {
            let f = TT::from_u64(n, x);
            let c = shared_size(&[f.clone()]);
            if shared_size(&[f.not()]) != c || shared_size(&[f.clone(), f.clone()]) != c || shared_size(&[f.clone(), f.not()]) != c {
                return Err(format!("robdd count not invariant under complement/duplicate n={} x={:x}", n, x));
            }
            // a function depending on <= 1 variable has no counted node
            let deps = (0..n).filter(|i| f.depends_on(*i)).count();
            if deps <= 1 && c != 0 {
                return Err("literal/constant counted".into());
            }
            if deps >= 2 && c == 0 {
                return Err("function of two variables with no node".into());
            }
        }
    }
    // xor of n variables: one node per level above the bottom one
    for n in 2..=6usize {
        let p = TT::from_fn(n, |m| super::alpha::popcount(m) % 2 == 1);
        if shared_size(&[p]) != n - 1 {
            return Err("parity size".into());
        }
    }
    Ok(())
}
