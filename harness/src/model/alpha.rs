//! Finite table alphabets 𝔽(n) for sizes whose 2^(2^n) functions cannot be swept
//! (DESIGN §3.4). Everything is enumerated, nothing is drawn at random during a run; the
//! seed only selects which three irregular constants belong to the word alphabet.

use super::tt::{nbits, nwords, TT};
use crate::engine::mix;

pub fn popcount(m: usize) -> usize {
    let mut c = 0;
    let mut x = m;
    while x != 0 {
        c += x & 1;
        x >>= 1;
    }
    c
}

/// the word alphabet P (full 64-bit words; masked to the table size by the callers)
pub fn word_alphabet(seed: u64) -> Vec<u64> {
    vec![
        0,
        !0,
        0x5555_5555_5555_5555,
        0xaaaa_aaaa_aaaa_aaaa,
        0x0123_4567_89ab_cdef,
        0x8000_0000_0000_0001,
        mix(seed.wrapping_mul(3).wrapping_add(0x1111)) | 1,
        mix(seed.wrapping_mul(5).wrapping_add(0x2222)) & !1,
        mix(seed.wrapping_mul(7).wrapping_add(0x3333)),
    ]
}

fn mask_words(n: usize, w: &mut [u64]) {
    if n < 6 {
        let mut m = 0u64;
        for p in 0..nbits(n) {
            m |= 1 << p;
        }
        w[0] &= m;
    }
}

pub fn tt_words(n: usize, mut w: Vec<u64>) -> TT {
    mask_words(n, &mut w);
    TT { n, w }
}

/// A — named functions, built from their definitions
pub fn named(n: usize) -> Vec<TT> {
    let mut v = vec![TT::from_fn(n, |_| false), TT::from_fn(n, |_| true)];
    for i in 0..n {
        v.push(TT::from_fn(n, |m| (m >> i) & 1 != 0));
    }
    v.push(TT::from_fn(n, |m| popcount(m) % 2 == 1));
    for k in 0..=n + 1 {
        v.push(TT::from_fn(n, |m| popcount(m) >= k));
        v.push(TT::from_fn(n, |m| popcount(m) == k));
    }
    v
}

fn boundary_positions(n: usize) -> Vec<usize> {
    let nb = nbits(n);
    let mut v = vec![0usize, 1, 2, 3, 31, 32, 33, 62, 63, 64, 65, 127, 128, (nb / 2).wrapping_sub(1), nb / 2, nb.wrapping_sub(2), nb - 1];
    v.retain(|p| *p < nb);
    v.sort();
    v.dedup();
    v
}

/// B — tables of weight one and two (and their complements). `level` 0: boundary
/// positions only; 1: every single bit, pairs with one boundary member inside a word;
/// 2: every single bit, all 2016 in-word pairs, placed in the first, second and last word,
/// plus cross-word pairs.
pub fn low_weight(n: usize, level: usize) -> Vec<TT> {
    let nb = nbits(n);
    let bp = boundary_positions(n);
    let mut v = Vec::new();
    let push = |bits: &[usize], v: &mut Vec<TT>| {
        let mut t = TT::zero(n);
        for b in bits {
            t.set(*b, true);
        }
        v.push(t.not());
        v.push(t);
    };
    if level == 0 {
        for p in &bp {
            push(&[*p], &mut v);
        }
        for p in &bp {
            for q in &bp {
                if p < q {
                    push(&[*p, *q], &mut v);
                }
            }
        }
        return v;
    }
    for p in 0..nb {
        push(&[p], &mut v);
    }
    let wbits = nb.min(64);
    let nw = nwords(n);
    let mut word_slots = vec![0usize];
    if nw > 1 {
        word_slots.push(1);
        word_slots.push(nw - 1);
    }
    word_slots.sort();
    word_slots.dedup();
    let inword_b: Vec<usize> = [0usize, 1, 2, 31, 32, 62, 63].iter().copied().filter(|p| *p < wbits).collect();
    for ws in &word_slots {
        for p in 0..wbits {
            for q in (p + 1)..wbits {
                if level >= 2 || inword_b.contains(&p) || inword_b.contains(&q) {
                    push(&[ws * 64 + p, ws * 64 + q], &mut v);
                }
            }
        }
    }
    if nw > 1 {
        // cross-word pairs: same and different bit offsets
        let offs: Vec<usize> = if level >= 2 { (0..64).collect() } else { inword_b.clone() };
        let mut word_pairs = vec![(0usize, 1usize), (0, nw - 1), ((nw / 2).wrapping_sub(1), nw / 2)];
        word_pairs.retain(|(a, b)| a < b && *b < nw);
        word_pairs.sort();
        word_pairs.dedup();
        for (wa, wb) in word_pairs {
            for p in &offs {
                push(&[wa * 64 + p, wb * 64 + p], &mut v);
                for q in &inword_b {
                    if q != p {
                        push(&[wa * 64 + p, wb * 64 + q], &mut v);
                    }
                }
            }
        }
    }
    v
}

/// C — word patterns with bounded deviations: a base word repeated, with at most
/// `dev` word positions replaced by another alphabet word; plus three tables whose
/// words are all distinct.
pub fn word_patterns(n: usize, seed: u64, dev: usize) -> Vec<TT> {
    let p = word_alphabet(seed);
    let nw = nwords(n);
    let mut v = Vec::new();
    for b in &p {
        v.push(tt_words(n, vec![*b; nw]));
        if dev >= 1 && nw > 1 {
            for pos in 0..nw {
                for d in &p {
                    if d != b {
                        let mut w = vec![*b; nw];
                        w[pos] = *d;
                        v.push(tt_words(n, w));
                    }
                }
            }
        }
        if dev >= 2 && nw > 2 {
            let mut slots = vec![0usize, 1, nw / 2 - 1, nw / 2, nw - 2, nw - 1];
            slots.sort();
            slots.dedup();
            for (a, pa) in slots.iter().enumerate() {
                for pb in slots.iter().skip(a + 1) {
                    for d1 in &p {
                        for d2 in &p {
                            if d1 != b && d2 != b {
                                let mut w = vec![*b; nw];
                                w[*pa] = *d1;
                                w[*pb] = *d2;
                                v.push(tt_words(n, w));
                            }
                        }
                    }
                }
            }
        }
    }
    for k in 0..3u64 {
        let w: Vec<u64> = (0..nw as u64).map(|i| mix(seed ^ (0xD15C0 + k * 0x1_0000_0000 + i))).collect();
        v.push(tt_words(n, w));
    }
    v
}

fn dedup_sorted(mut v: Vec<TT>) -> Vec<TT> {
    v.sort_by(|a, b| a.w.iter().rev().cmp(b.w.iter().rev()));
    v.dedup();
    v
}

/// 𝔽(n) = A ∪ B ∪ C, sorted and de-duplicated. `level`: 0 small (for expensive
/// transitions), 1 quick, 2 thorough.
pub fn family(n: usize, seed: u64, level: usize) -> Vec<TT> {
    let mut v = named(n);
    v.extend(low_weight(n, level));
    v.extend(word_patterns(n, seed, if level == 0 { 0 } else { level }));
    dedup_sorted(v)
}

/// Every 3-variable function g embedded as g(x_a, x_b, x_c) in an n-variable table, for a
/// set of ordered variable triples: all orders of {0,1,2}, {n-3,n-2,n-1}, {0,3,n-1},
/// {2,n-2,n-1}, {1,5,6} (where they fit); `all_triples`: every ordered triple. These are the
/// multiplexers, and/or/xor of literals and "a literal gating a small function" at every
/// position regime (in-word, word-selecting, mixed), with many equal, all-zero and all-ones words.
pub fn embedded3(n: usize, all_triples: bool) -> Vec<TT> {
    if n < 3 {
        return Vec::new();
    }
    let mut triples: Vec<[usize; 3]> = Vec::new();
    if all_triples {
        for a in 0..n {
            for b in 0..n {
                for c in 0..n {
                    if a != b && a != c && b != c {
                        triples.push([a, b, c]);
                    }
                }
            }
        }
    } else {
        let mut bases: Vec<[usize; 3]> = vec![[0, 1, 2], [n - 3, n - 2, n - 1], [0, 3.min(n - 2), n - 1], [2.min(n - 3), n - 2, n - 1]];
        if n >= 7 {
            bases.push([1, 5, 6]);
        }
        for base in bases {
            if base[0] == base[1] || base[1] == base[2] || base[0] == base[2] {
                continue;
            }
            for p in [[0usize, 1, 2], [0, 2, 1], [1, 0, 2], [1, 2, 0], [2, 0, 1], [2, 1, 0]] {
                triples.push([base[p[0]], base[p[1]], base[p[2]]]);
            }
        }
        triples.sort();
        triples.dedup();
    }
    let mut v = Vec::new();
    for tr in &triples {
        for g in 0..256u32 {
            v.push(TT::from_fn(n, |m| (g >> (((m >> tr[0]) & 1) | (((m >> tr[1]) & 1) << 1) | (((m >> tr[2]) & 1) << 2))) & 1 != 0));
        }
    }
    dedup_sorted(v)
}

/// A small pool of second operands: named functions and the irregular tables.
pub fn pool(n: usize, seed: u64) -> Vec<TT> {
    let mut v = named(n);
    v.extend(word_patterns(n, seed, 0));
    dedup_sorted(v)
}

/// A family of bounded size: the largest of the combinations A ∪ B(lb) ∪ C(lc), tried from
/// (level, level) downwards, that has at most `cap` members — each still completely enumerated.
pub fn family_capped(n: usize, seed: u64, level: usize, cap: usize) -> Vec<TT> {
    let mut combos: Vec<(usize, usize)> = Vec::new();
    for lb in (0..=level).rev() {
        combos.push((lb, level));
    }
    for lc in (0..level).rev() {
        combos.push((0, lc));
    }
    for (lb, lc) in combos {
        let mut v = named(n);
        v.extend(low_weight(n, lb));
        v.extend(word_patterns(n, seed, lc));
        let v = dedup_sorted(v);
        if v.len() <= cap {
            return v;
        }
    }
    let mut v = named(n);
    v.extend(low_weight(n, 0));
    v.extend(word_patterns(n, seed, 0));
    dedup_sorted(v)
}
