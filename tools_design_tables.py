#!/usr/bin/env python3
"""Regenerate the measured tables of DESIGN.md §9 from evidence/*.json and selftest/results.json."""
import json, glob, os, re
ROOT='/verif'
def cov_table():
    rows=['| property | tier | wall s | states | transitions (validated against impl) | non-trivial | exhaustive / all sections | outcomes |','|---|---|---|---|---|---|---|---|']
    for f in sorted(glob.glob(f'{ROOT}/evidence/C*.json')):
        e=json.load(open(f)); c=e['coverage']
        rows.append(f"| {e['property_id']} | {e['tier']} | {e['wall_s']:.1f} | {c['states']:,} | {c['transitions']:,} ({c['traces_validated_against_impl']:,}) | {c['distinct_nontrivial']:,} | {c['exhaustive_sections']} / {c['exhaustive_sections']+c['bounded_sections']} | {c['distinct_outcomes']} |")
    return '\n'.join(rows)
def det_table():
    p=f'{ROOT}/selftest/results.json'
    if not os.path.exists(p): return '(self-test not run yet)'
    res=json.load(open(p))
    rows=['| change | breaks | needs, to manifest | caught by (quick tier) | first signature |','|---|---|---|---|---|']
    for r in res:
        sig=''
        for c in r.get('caught_by',[]):
            s=r['detail'][c]['signatures']
            if s: sig=s[0].replace('signature:','').strip(); break
        needs=r.get('needs','')
        if needs=='see notes.md':
            meta=f"{ROOT}/{r['name']}/notes.md"
            needs='see '+r['name']+'/notes.md'
        rows.append(f"| `{r['name']}` | {', '.join(r.get('expected',[]))} | {needs} | {', '.join(r.get('caught_by',[])) or ('**MISSED**' if r['status']=='MISSED' else 'not caught — '+r['status'].split(' ')[0].lower())} | `{sig}` |")
    n=len(res); caught=sum(1 for r in res if r['status']=='CAUGHT')
    ood=sum(1 for r in res if r['status'].startswith('OUT'))
    return '\n'.join(rows)+f'\n\n{caught} of {n} changes caught by the quick tier of the check(s) of the property they break; {ood} lie outside the properties\' domain or the oracles\' reach (see §8) and are not caught; {n-caught-ood} missed.'
def thorough_table():
    p=f'{ROOT}/selftest/thorough_run.log'
    if not os.path.exists(p): return '(no thorough pass logged yet)'
    rows=['| property | exit | wall s | states | transitions | exhaustive / all sections |','|---|---|---|---|---|---|']
    for line in open(p):
        m=re.match(r'(C\d+) thorough exit=(\d+) wall=(\d+)s OK property=\S+ tier=thorough states=(\d+) transitions=(\d+) .*exhaustive_sections=(\d+)/(\d+)', line)
        if m:
            rows.append(f"| {m.group(1)} | {m.group(2)} | {m.group(3)} | {int(m.group(4)):,} | {int(m.group(5)):,} | {m.group(6)} / {m.group(7)} |")
        elif line.strip():
            rows.append(f"| {line.split()[0]} | see log | | | | |")
    return '\n'.join(rows)
s=open(f'{ROOT}/DESIGN.md').read()
s=re.sub(r'<!-- BEGIN:THOROUGH -->.*?<!-- END:THOROUGH -->', '<!-- BEGIN:THOROUGH -->\n'+thorough_table()+'\n<!-- END:THOROUGH -->', s, flags=re.S)
s=re.sub(r'<!-- BEGIN:COVERAGE -->.*?<!-- END:COVERAGE -->', '<!-- BEGIN:COVERAGE -->\n'+cov_table()+'\n<!-- END:COVERAGE -->', s, flags=re.S)
s=re.sub(r'<!-- BEGIN:DETECTION -->.*?<!-- END:DETECTION -->', '<!-- BEGIN:DETECTION -->\n'+det_table()+'\n<!-- END:DETECTION -->', s, flags=re.S)
open(f'{ROOT}/DESIGN.md','w').write(s)
print('tables regenerated')
