//! lsx-mip — C18: the MIP two-level optimizers return exact covers of minimum gate cost.
//! volute is built with feature `optim-mip`. Oracle: `TwoLevelOpt`, an exhaustive
//! shortest-path search over ALL cubes (resp. all implicants and exclusive terms), whose state
//! is the tuple of covered on-sets (SOP/SOPES) or accumulated XOR functions (ESOP) — itself
//! an explicit-state search, independent of the MIP's candidate enumeration.
//!
//!   lsx-mip C18 quick|thorough     (spawns 16 worker processes: HiGHS instances are not shared)
//!   lsx-mip worker <k> <N> <tier> <out.json>
//!   lsx-mip replay <file>

#![allow(dead_code)]

#[path = "../../harness/src/engine/mod.rs"]
mod engine;
#[path = "../../harness/src/model/mod.rs"]
mod model;

use engine::json::J;
use engine::{guarded, Case, Local, Run, Tier, Violation};
use model::cube::{CubeM, EcubeM};
use model::group::{orbit_min, Grp};
use model::tt::{nbits, TT};
use std::collections::HashMap;
use volute::sop::optim::{optimize_esop_mip, optimize_sop_mip, optimize_sopes_mip};
use volute::Lut;

type Verdict = Result<(), (String, String)>;

fn fail<T>(e: impl Into<String>, o: impl Into<String>) -> Result<T, (String, String)> {
    Err((e.into(), o.into()))
}

#[derive(Clone)]
struct Term {
    tv: u16,     // truth table over n <= 4 variables
    gate: i64,   // cost of its gates (paid once if used in any output)
    name: String,
}

fn full_mask(n: usize) -> u16 {
    if nbits(n) == 16 {
        0xffff
    } else {
        (1u16 << nbits(n)) - 1
    }
}

fn cube_tv(n: usize, c: &CubeM) -> u16 {
    let mut t = 0u16;
    for m in 0..nbits(n) {
        if c.value(m as u64) {
            t |= 1 << m;
        }
    }
    t
}

fn all_cube_terms(n: usize, and_cost: i64) -> Vec<Term> {
    let mut v = Vec::new();
    for p in 0..(1u32 << n) {
        for q in 0..(1u32 << n) {
            if p & q == 0 {
                let c = CubeM::from_masks(p, q);
                let lits = c.num_lits() as i64;
                v.push(Term { tv: cube_tv(n, &c), gate: std::cmp::max(lits, 1).saturating_sub(1) * and_cost, name: format!("cube+{:x}-{:x}", p, q) });
            }
        }
    }
    v
}

fn all_ecube_terms(n: usize, xor_cost: i64) -> Vec<Term> {
    let mut v = Vec::new();
    for vars in 0..(1u32 << n) {
        for x in [false, true] {
            let e = EcubeM::from_mask(vars, x);
            let lits = e.vars.len() as i64;
            if lits >= 2 {
                // terms with fewer than two variables denote constants or literals: cubes of cost 0 already
                let mut t = 0u16;
                for m in 0..nbits(n) {
                    if e.value(m as u64) {
                        t |= 1 << m;
                    }
                }
                v.push(Term { tv: t, gate: (lits - 1) * xor_cost, name: format!("ecube{:x}{}", vars, if x { "n" } else { "" }) });
            }
        }
    }
    v
}

/// Number of state bits the exhaustive search needs: OR semantics: one bit per (output,
/// on-set assignment); XOR semantics: 2^n bits per non-zero output.
fn state_bits(n: usize, fs: &[u16], xor_sem: bool) -> u32 {
    if xor_sem {
        fs.iter().filter(|f| **f != 0).count() as u32 * nbits(n) as u32
    } else {
        fs.iter().map(|f| f.count_ones()).sum()
    }
}

pub const MAX_STATE_BITS: u32 = 21;
/// cap on the cover states the second oracle may generate before giving up (no verdict from it)
pub const COVER_CAP: usize = 3_000_000;

/// Exhaustive optimum by dynamic programming over the terms. `xor_sem`: outputs are XORs of
/// terms (ESOP), else ORs of implicants. The state is the tuple of covered on-set elements
/// (OR) / accumulated functions (XOR), packed densely. Returns (optimum, transitions explored).
fn two_level_opt(n: usize, fs: &[u16], terms: &[Term], per_use: i64, xor_sem: bool) -> Option<(i64, u64)> {
    let bits = state_bits(n, fs, xor_sem);
    if bits > MAX_STATE_BITS {
        return None;
    }
    let full = full_mask(n);
    // position of (output j, assignment m) in the packed state
    let mut pos: Vec<Vec<Option<u32>>> = Vec::new();
    let mut next_bit = 0u32;
    for f in fs {
        let mut row = vec![None; nbits(n)];
        for m in 0..nbits(n) {
            let used = if xor_sem { *f != 0 } else { (f >> m) & 1 != 0 };
            if used {
                row[m] = Some(next_bit);
                next_bit += 1;
            }
        }
        pos.push(row);
    }
    let pack = |j: usize, tv: u16| -> u32 {
        let mut s = 0u32;
        for m in 0..nbits(n) {
            if (tv >> m) & 1 != 0 {
                if let Some(b) = pos[j][m] {
                    s |= 1 << b;
                }
            }
        }
        s
    };
    let size = 1usize << bits;
    const INF: i64 = i64::MAX / 4;
    let mut dp = vec![INF; size];
    dp[0] = 0;
    let mut explored = 0u64;
    for t in terms {
        let mut usable: Vec<usize> = Vec::new();
        for (j, f) in fs.iter().enumerate() {
            if *f == 0 {
                continue; // a constant-zero output uses no term
            }
            if xor_sem || (t.tv & !f & full) == 0 {
                usable.push(j);
            }
        }
        if usable.is_empty() {
            continue;
        }
        let mut moves: Vec<(u32, i64)> = Vec::new();
        for sub in 1u32..(1u32 << usable.len()) {
            let mut m = 0u32;
            let mut uses = 0i64;
            for (b, j) in usable.iter().enumerate() {
                if (sub >> b) & 1 != 0 {
                    uses += 1;
                    m |= pack(*j, t.tv);
                }
            }
            moves.push((m, t.gate + per_use * uses));
        }
        let prev = dp.clone();
        for (st, cost) in prev.iter().enumerate() {
            if *cost >= INF {
                continue;
            }
            for (m, c) in &moves {
                let ns = if xor_sem { st ^ *m as usize } else { st | *m as usize };
                explored += 1;
                if cost + c < dp[ns] {
                    dp[ns] = cost + c;
                }
            }
        }
    }
    let mut target = 0u32;
    for (j, f) in fs.iter().enumerate() {
        target |= pack(j, *f);
    }
    let nonzero = fs.iter().filter(|f| **f != 0).count() as i64;
    let c = dp[target as usize];
    if c >= INF {
        None
    } else {
        Some((c - per_use * nonzero, explored))
    }
}

/// Second exhaustive oracle for OR semantics (Sop / Sop+Soes), for instances whose on-sets are
/// too large for the dense table: uniform-cost search over cover states (one 16-bit covered
/// set per output), always extending the cover at the FIRST uncovered (output, assignment)
/// pair — every form is generated in exactly one order — by every implicant term containing
/// it, used in every subset of the outputs it is an implicant of (outputs where it would
/// cover nothing new are left out: such a use only costs). The first time the full cover is
/// taken from the queue its cost is the optimum (all move costs are positive). Returns None
/// when more than `cap` states were generated.
fn cover_search(n: usize, fs: &[u16], terms: &[Term], per_use: i64, cap: usize) -> Option<(i64, u64)> {
    if fs.len() > 4 || per_use <= 0 {
        return None;
    }
    let full = full_mask(n);
    let k = fs.len();
    let pack = |c: &[u16]| -> u64 { c.iter().enumerate().fold(0u64, |a, (j, x)| a | ((*x as u64) << (16 * j))) };
    let target: Vec<u16> = fs.to_vec();
    let usable: Vec<Vec<usize>> = terms.iter().map(|t| (0..k).filter(|j| fs[*j] != 0 && (t.tv & !fs[*j] & full) == 0 && t.tv != 0).collect()).collect();
    let mut best: std::collections::HashMap<u64, i64> = std::collections::HashMap::new();
    // bucket queue by cost
    let mut buckets: Vec<Vec<Vec<u16>>> = vec![vec![vec![0u16; k]]];
    best.insert(0, 0);
    let mut explored = 0u64;
    let mut cost = 0usize;
    while cost < buckets.len() {
        while let Some(st) = buckets[cost].pop() {
            if best.get(&pack(&st)).copied() != Some(cost as i64) {
                continue; // a cheaper way to this cover was found later
            }
            if st == target {
                let nonzero = fs.iter().filter(|f| **f != 0).count() as i64;
                return Some((cost as i64 - per_use * nonzero, explored));
            }
            // first uncovered (output, assignment)
            let (j, m) = (0..k).find_map(|j| (0..nbits(n)).find(|m| (fs[j] >> m) & 1 != 0 && (st[j] >> m) & 1 == 0).map(|m| (j, m))).unwrap();
            for (ti, t) in terms.iter().enumerate() {
                if (t.tv >> m) & 1 == 0 || !usable[ti].contains(&j) {
                    continue;
                }
                let others: Vec<usize> = usable[ti].iter().copied().filter(|o| *o != j && (t.tv & !st[*o]) != 0).collect();
                for sub in 0u32..(1u32 << others.len()) {
                    let mut ns = st.clone();
                    ns[j] |= t.tv;
                    let mut uses = 1i64;
                    for (b, o) in others.iter().enumerate() {
                        if (sub >> b) & 1 != 0 {
                            ns[*o] |= t.tv;
                            uses += 1;
                        }
                    }
                    let nc = cost as i64 + t.gate + per_use * uses;
                    explored += 1;
                    let key = pack(&ns);
                    let e = best.entry(key).or_insert(i64::MAX);
                    if nc < *e {
                        *e = nc;
                        let nc = nc as usize;
                        if buckets.len() <= nc {
                            buckets.resize(nc + 1, Vec::new());
                        }
                        buckets[nc].push(ns);
                    }
                }
            }
            if best.len() > cap {
                return None;
            }
        }
        cost += 1;
    }
    None
}

fn lut_of(n: usize, f: u16) -> Lut {
    Lut::from_blocks(n, &[f as u64])
}

fn abs_cube(c: &volute::sop::Cube) -> CubeM {
    CubeM { pos: c.pos_vars().collect(), neg: c.neg_vars().collect() }
}

fn abs_ecube(e: &volute::sop::Ecube) -> EcubeM {
    EcubeM { vars: e.vars().collect(), xnor: e.value(0) }
}

fn ecube_tv(n: usize, m: &EcubeM) -> u16 {
    let mut tv = 0u16;
    for a in 0..nbits(n) {
        if m.value(a as u64) {
            tv |= 1 << a;
        }
    }
    tv
}

/// The forms returned for one instance, abstracted: per output the cubes and exclusive terms.
#[derive(Clone, Debug)]
struct Solution {
    outs: Vec<(Vec<CubeM>, Vec<EcubeM>)>,
}

impl Solution {
    /// cost under the documented model
    fn cost(&self, and_c: i64, xor_c: i64, sum_c: i64) -> i64 {
        let mut used_c: std::collections::BTreeSet<&CubeM> = Default::default();
        let mut used_e: std::collections::BTreeSet<&EcubeM> = Default::default();
        let mut cost = 0i64;
        for (cs, es) in &self.outs {
            cost += std::cmp::max((cs.len() + es.len()) as i64 - 1, 0) * sum_c;
            used_c.extend(cs.iter());
            used_e.extend(es.iter());
        }
        for c in used_c {
            cost += std::cmp::max(c.num_lits() as i64, 1).saturating_sub(1) * and_c;
        }
        for e in used_e {
            cost += std::cmp::max(e.vars.len() as i64, 1).saturating_sub(1) * xor_c;
        }
        cost
    }
    fn show(&self) -> String {
        self.outs.iter().map(|(cs, es)| format!("[{}{}]", cs.iter().map(|c| format!("+{:?}-{:?}", c.pos, c.neg)).collect::<Vec<_>>().join(" , "), if es.is_empty() { String::new() } else { format!(" || {}", es.iter().map(|e| format!("{}{:?}", if e.xnor { "xnor" } else { "xor" }, e.vars)).collect::<Vec<_>>().join(" , ")) })).collect::<Vec<_>>().join(" ")
    }
}

/// Run one optimizer and validate part (a) of the property: one form per function, each
/// denoting exactly that function, Sop cubes and Soes terms being implicants.
fn solve(which: &str, n: usize, fs: &[u16], and_c: i32, xor_c: i32, or_c: i32) -> Result<Solution, (String, String)> {
    let luts: Vec<Lut> = fs.iter().map(|f| lut_of(n, *f)).collect();
    let full = full_mask(n);
    let mut sol = Solution { outs: Vec::new() };
    match which {
        "sop" | "sopes" => {
            let r = guarded(|| if which == "sop" { optimize_sop_mip(&luts, and_c, or_c).into_iter().map(|s| (s, None)).collect::<Vec<_>>() } else { optimize_sopes_mip(&luts, and_c, xor_c, or_c).into_iter().map(|(s, e)| (s, Some(e))).collect::<Vec<_>>() });
            let res = match r {
                Err(p) => return fail(format!("optimize_{}_mip returns one form per function", which), p),
                Ok(x) => x,
            };
            if res.len() != fs.len() {
                return fail(format!("{} forms", fs.len()), format!("{}", res.len()));
            }
            for (j, (sop, soes)) in res.iter().enumerate() {
                let mut acc = 0u16;
                let mut cs = Vec::new();
                let mut es = Vec::new();
                for c in sop.cubes() {
                    let m = abs_cube(c);
                    let tv = cube_tv(n, &m);
                    if m.contradictory() || tv & !fs[j] & full != 0 {
                        return fail(format!("every cube of output {} is an implicant of {:#x}", j, fs[j]), format!("{} in {}", c, sop));
                    }
                    acc |= tv;
                    cs.push(m);
                }
                if let Some(soes) = soes {
                    for e in soes.cubes() {
                        let m = abs_ecube(e);
                        let tv = ecube_tv(n, &m);
                        if tv & !fs[j] & full != 0 {
                            return fail(format!("every exclusive term of output {} is an implicant of {:#x}", j, fs[j]), format!("{} in {}", e, soes));
                        }
                        acc |= tv;
                        es.push(m);
                    }
                }
                if acc != fs[j] {
                    return fail(format!("output {} denotes exactly {:#x}", j, fs[j]), format!("{:#x}: {} {}", acc, sop, soes.as_ref().map(|s| s.to_string()).unwrap_or_default()));
                }
                sol.outs.push((cs, es));
            }
        }
        _ => {
            let r = guarded(|| optimize_esop_mip(&luts, and_c, xor_c));
            let res = match r {
                Err(p) => return fail("optimize_esop_mip returns one form per function", p),
                Ok(x) => x,
            };
            if res.len() != fs.len() {
                return fail(format!("{} forms", fs.len()), format!("{}", res.len()));
            }
            for (j, esop) in res.iter().enumerate() {
                let mut acc = 0u16;
                let mut cs = Vec::new();
                for c in esop.cubes() {
                    let m = abs_cube(c);
                    acc ^= cube_tv(n, &m);
                    cs.push(m);
                }
                if acc != fs[j] {
                    return fail(format!("output {} denotes exactly {:#x}", j, fs[j]), format!("{:#x}: {}", acc, esop));
                }
                sol.outs.push((cs, Vec::new()));
            }
        }
    }
    Ok(sol)
}

fn costs_of(which: &str, and_c: i32, xor_c: i32, or_c: i32) -> (i64, i64, i64) {
    // (and, xor-gate, per-use sum) under the documented model
    match which {
        "esop" => (and_c as i64, 0, xor_c as i64),
        "sop" => (and_c as i64, 0, or_c as i64),
        _ => (and_c as i64, xor_c as i64, or_c as i64),
    }
}

/// An input transformation (permutation, then complementation mask) of an n-variable function.
fn transform_fn(n: usize, f: u16, perm: &[u8], flips: u32) -> u16 {
    // g(y) = f(x) with x[perm[i]] = y[i] ^ flips[i]
    let t = model::group::apply(&TT::from_u64(n, f as u64), perm, flips);
    t.w[0] as u16
}

/// Map a cube of the transformed instance back to the original variables.
fn map_back_cube(c: &CubeM, perm: &[u8], flips: u32) -> CubeM {
    // literal on y_i (value y_i = x[perm[i]] ^ flips_i): y_i true <=> x[perm[i]] = !flips_i
    let mut out = CubeM::one();
    for v in &c.pos {
        if (flips >> v) & 1 == 0 {
            out.pos.insert(perm[*v] as usize);
        } else {
            out.neg.insert(perm[*v] as usize);
        }
    }
    for v in &c.neg {
        if (flips >> v) & 1 == 0 {
            out.neg.insert(perm[*v] as usize);
        } else {
            out.pos.insert(perm[*v] as usize);
        }
    }
    out
}

fn map_back_ecube(e: &EcubeM, perm: &[u8], flips: u32) -> EcubeM {
    let mut xnor = e.xnor;
    let mut vars = std::collections::BTreeSet::new();
    for v in &e.vars {
        vars.insert(perm[*v] as usize);
        if (flips >> v) & 1 != 0 {
            xnor = !xnor;
        }
    }
    EcubeM { vars, xnor }
}

/// Does `sol` denote `fs` (OR of cubes and terms, or XOR of cubes)?
fn denotes(n: usize, fs: &[u16], sol: &Solution, xor_sem: bool) -> bool {
    sol.outs.len() == fs.len()
        && sol.outs.iter().zip(fs).all(|((cs, es), f)| {
            let mut acc = 0u16;
            for c in cs {
                if xor_sem {
                    acc ^= cube_tv(n, c);
                } else {
                    acc |= cube_tv(n, c);
                }
            }
            for e in es {
                acc |= ecube_tv(n, e);
            }
            acc == *f
        })
}

/// One instance: part (a) validity, part (b) minimality against the exhaustive optimum when
/// the state space allows it, and the metamorphic oracle: the same optimizer on an
/// equivalent instance (outputs reordered, inputs permuted / complemented) must not find a
/// cheaper form — if it does, that form mapped back is an explicit cheaper valid form.
/// Returns (returned cost, Some(optimum) if the exhaustive search ran, transitions of the oracle).
fn check_instance(which: &str, n: usize, fs: &[u16], and_c: i32, xor_c: i32, or_c: i32, meta: bool) -> Result<(i64, Option<i64>, u64), (String, String)> {
    let sol = solve(which, n, fs, and_c, xor_c, or_c)?;
    let (ca, cx, cs) = costs_of(which, and_c, xor_c, or_c);
    let cost = sol.cost(ca, cx, cs);
    let xor_sem = which == "esop";
    let mut terms = all_cube_terms(n, ca);
    if which == "sopes" {
        terms.extend(all_ecube_terms(n, cx));
    }
    let mut explored = 0u64;
    let mut optimum = None;
    if let Some((opt, ex)) = two_level_opt(n, fs, &terms, cs, xor_sem) {
        explored = ex;
        optimum = Some(opt);
        if cost != opt {
            return fail(format!("total cost = the minimum over all such two-level forms = {} (exhaustive search over all cubes)", opt), format!("{} for {}", cost, sol.show()));
        }
        // the two exhaustive oracles must agree wherever both apply (every 4th instance)
        if !xor_sem && (fs.iter().map(|f| *f as u64).sum::<u64>() + and_c as u64) % 4 == 0 {
            if let Some((opt2, _)) = cover_search(n, fs, &terms, cs, COVER_CAP) {
                if opt2 != opt {
                    return Err(("harness".into(), format!("the two exhaustive oracles disagree: dense table {} vs cover search {} on {:x?}", opt, opt2, fs)));
                }
            }
        }
    } else if !xor_sem {
        if let Some((opt, ex)) = cover_search(n, fs, &terms, cs, COVER_CAP) {
            explored = ex;
            optimum = Some(opt);
            if cost != opt {
                return fail(format!("total cost = the minimum over all such two-level forms = {} (exhaustive uniform-cost search over covers by all implicant terms)", opt), format!("{} for {}", cost, sol.show()));
            }
        }
    }
    if meta {
        let id: Vec<u8> = (0..n as u8).collect();
        let mut transforms: Vec<(Vec<u8>, u32, bool)> = Vec::new(); // (perm, flips, reverse outputs)
        if fs.len() > 1 {
            transforms.push((id.clone(), 0, true));
        }
        if n >= 2 {
            let mut p = id.clone();
            p.swap(0, n - 1);
            transforms.push((p, 0, false));
            let mut r = id.clone();
            r.rotate_left(1);
            transforms.push((r, 1, fs.len() > 1));
        }
        if n >= 1 {
            transforms.push((id.clone(), (1u32 << n) - 1, false));
        }
        for (perm, flips, rev) in transforms {
            let mut gs: Vec<u16> = fs.iter().map(|f| transform_fn(n, *f, &perm, flips)).collect();
            if rev {
                gs.reverse();
            }
            let sol2 = solve(which, n, &gs, and_c, xor_c, or_c).map_err(|(e, o)| (format!("[equivalent instance {:x?}] {}", gs, e), o))?;
            let cost2 = sol2.cost(ca, cx, cs);
            if cost2 != cost {
                // map the cheaper solution to the other instance: an explicit witness
                let mut back = sol2.clone();
                if rev {
                    back.outs.reverse();
                }
                for (cs_, es_) in back.outs.iter_mut() {
                    for c in cs_.iter_mut() {
                        *c = map_back_cube(c, &perm, flips);
                    }
                    for e in es_.iter_mut() {
                        *e = map_back_ecube(e, &perm, flips);
                    }
                }
                let valid = denotes(n, fs, &back, xor_sem) && back.cost(ca, cx, cs) == cost2;
                if !valid {
                    return Err(("harness".into(), format!("mapping a solution back through perm={:?} flips={:#x} rev={} did not give a valid form", perm, flips, rev)));
                }
                if cost2 < cost {
                    return fail(format!("total cost is the minimum: a valid form of cost {} exists ({}), found by the same optimizer on the equivalent instance perm={:?} flips={:#x} reversed={}", cost2, back.show(), perm, flips, rev), format!("{} for {}", cost, sol.show()));
                } else {
                    return fail(format!("[equivalent instance {:x?}, perm={:?} flips={:#x} reversed={}] total cost is the minimum: a valid form of cost {} exists (the original instance's result mapped forward)", gs, perm, flips, rev, cost), format!("{} for {}", cost2, sol2.show()));
                }
            }
        }
    }
    Ok((cost, optimum, explored))
}

#[derive(Clone)]
struct Inst {
    which: &'static str,
    n: usize,
    fs: Vec<u16>,
    costs: (i32, i32, i32),
    meta: bool,
    family: &'static str,
}

fn case_of(i: &Inst) -> String {
    format!("kind=mip;which={};n={};fs={};and={};xor={};or={};meta={}", i.which, i.n, i.fs.iter().map(|f| format!("{:x}", f)).collect::<Vec<_>>().join("."), i.costs.0, i.costs.1, i.costs.2, i.meta as u8)
}

fn permute_fn(n: usize, f: u16, perm: &[u8]) -> u16 {
    transform_fn(n, f, perm, 0)
}

fn instances(tier: Tier) -> Vec<Inst> {
    let thorough = tier == Tier::Thorough;
    // (n, functions, family, meta, heavy)
    let mut lists: Vec<(usize, Vec<u16>, &'static str, bool, bool)> = Vec::new();
    for n in 0..=2usize {
        let size = 1u32 << nbits(n);
        for a in 0..size {
            lists.push((n, vec![a as u16], "all-n<=2", false, false));
            for b in 0..size {
                lists.push((n, vec![a as u16, b as u16], "all-n<=2", false, false));
            }
        }
    }
    for a in 0..256u32 {
        lists.push((3, vec![a as u16], "all-singles-n3", a % 16 == 5, false));
    }
    let mut reps3: Vec<u16> = (0..256u32).map(|x| orbit_min(&TT::from_u64(3, x as u64), Grp::Npn).0.w[0] as u16).collect();
    reps3.sort();
    reps3.dedup();
    // n = 3: pairs and triples of NPN representatives (shared sub-cubes across outputs)
    for (i, a) in reps3.iter().enumerate() {
        for (j, b) in reps3.iter().enumerate() {
            if thorough || (i + j) % 3 == 0 {
                lists.push((3, vec![*a, *b], "npn-pairs-n3", false, true));
            }
            for (k, c) in reps3.iter().enumerate() {
                if i <= j && j <= k && (thorough || (i + 2 * j + 3 * k) % 9 == 0) {
                    lists.push((3, vec![*a, *b, *c], "npn-triples-n3", false, true));
                }
            }
        }
    }
    // n = 3: literal-or-cube functions and their rotations (a cube that is prime for no output
    // can be worth sharing)
    let rot3: Vec<u8> = vec![1, 2, 0];
    let mut lc3: Vec<u16> = Vec::new();
    for l in 0..3usize {
        for lp in [false, true] {
            let lit = if lp { CubeM::from_masks(1 << l, 0) } else { CubeM::from_masks(0, 1 << l) };
            for p in 0..8u32 {
                for q in 0..8u32 {
                    if p & q == 0 && (p | q).count_ones() == 2 {
                        lc3.push(cube_tv(3, &lit) | cube_tv(3, &CubeM::from_masks(p, q)));
                    }
                }
            }
        }
    }
    lc3.sort();
    lc3.dedup();
    for (k, f) in lc3.iter().enumerate() {
        if thorough || k % 3 == 0 {
            let g = permute_fn(3, *f, &rot3);
            let h = permute_fn(3, g, &rot3);
            lists.push((3, vec![*f, g, h], "literal-or-cube-rotations-n3", false, true));
        }
    }
    // cube-split triples: a cube c with a free variable x, as (c & x, c & !x, c): re-using the two
    // halves for the third output competes with paying for the merged cube
    for n in [3usize, 4] {
        let mut k = 0usize;
        for p in 0..(1u32 << n) {
            for q in 0..(1u32 << n) {
                if p & q != 0 || (p | q).count_ones() == 0 || (p | q).count_ones() as usize >= n {
                    continue;
                }
                for x in 0..n as u32 {
                    if (p | q) & (1 << x) != 0 {
                        continue;
                    }
                    k += 1;
                    if !(thorough || n == 3 || k % 4 == 0) {
                        continue;
                    }
                    let c = cube_tv(n, &CubeM::from_masks(p, q));
                    let c1 = cube_tv(n, &CubeM::from_masks(p | (1 << x), q));
                    let c0 = cube_tv(n, &CubeM::from_masks(p, q | (1 << x)));
                    lists.push((n, vec![c1, c0, c], "cube-split-triples", false, true));
                    if thorough {
                        lists.push((n, vec![c, c1, c0], "cube-split-triples", false, true));
                    }
                }
            }
        }
    }
    // n <= 1: 3-output lists
    if thorough {
        for n in 0..=1usize {
            let size = 1u32 << nbits(n);
            for a in 0..size {
                for b in 0..size {
                    for c in 0..size {
                        lists.push((n, vec![a as u16, b as u16, c as u16], "triples-n<=1", false, false));
                    }
                }
            }
        }
    }
    // n = 4, two outputs: (literal | 3-literal cube) and a variable-permuted copy
    let perms4: Vec<Vec<u8>> = vec![vec![3, 2, 1, 0], vec![1, 2, 3, 0], vec![2, 3, 0, 1]];
    let mut lc4: Vec<u16> = Vec::new();
    for l in 0..4usize {
        for lp in [false, true] {
            let lit = if lp { CubeM::from_masks(1 << l, 0) } else { CubeM::from_masks(0, 1 << l) };
            for p in 0..16u32 {
                for q in 0..16u32 {
                    if p & q == 0 && (p | q).count_ones() == 3 {
                        lc4.push(cube_tv(4, &lit) | cube_tv(4, &CubeM::from_masks(p, q)));
                    }
                }
            }
        }
    }
    lc4.sort();
    lc4.dedup();
    for (k, f) in lc4.iter().enumerate() {
        for (pi, p) in perms4.iter().enumerate() {
            if thorough || (k + pi) % 8 == 0 {
                lists.push((4, vec![*f, permute_fn(4, *f, p)], "literal-or-cube-pairs-n4", false, true));
            }
        }
    }
    // n = 4 singles: NPN representatives (ESOP state space 2^16; SOP by on-set size)
    let mut reps4: Vec<u16> = Vec::new();
    {
        let mut seen = vec![false; 1 << 16];
        for x in 0..(1u32 << 16) {
            if !seen[x as usize] {
                let f = TT::from_u64(4, x as u64);
                for t in model::group::orbit(&f, Grp::Npn) {
                    seen[t.w[0] as usize] = true;
                }
                reps4.push(x as u16);
            }
        }
    }
    for (k, f) in reps4.iter().enumerate() {
        if thorough || k % 8 == 3 {
            lists.push((4, vec![*f], "npn-singles-n4", k % 4 == 3, true));
        }
    }
    // n = 4, two and three dense outputs: beyond the exhaustive search, metamorphic oracle only
    let dense: Vec<u16> = model::alpha::word_patterns(4, 0, 0).iter().map(|t| t.w[0] as u16).chain([0x6996u16, 0xe8a0, 0x17e8, 0x96c3, 0xcbbe, 0xeab5, 0x2468, 0x0fc9, 0xfab0]).filter(|f| *f != 0 && *f != 0xffff).collect();
    let nd = dense.len();
    for i in 0..nd {
        let count = if thorough { 8 } else { 2 };
        for d in 1..=count {
            lists.push((4, vec![dense[i], dense[(i + d) % nd]], "dense-pairs-n4", true, true));
            lists.push((4, vec![dense[i], dense[(i + d) % nd], dense[(i + 2 * d + 1) % nd]], "dense-triples-n4", true, true));
        }
    }
    // lists that repeat a function: each copy pays its own per-output gates (every cost triple)
    for a in 0..256u32 {
        lists.push((3, vec![a as u16, a as u16], "repeated-n3", false, false));
        if a % 8 == 6 {
            let g = (a as u16).rotate_left(3) & 0xff ^ 0x80;
            lists.push((3, vec![a as u16, g, a as u16], "repeated-n3", false, false));
        }
    }
    // n = 4, three outputs (x_a ^ x_b) | minterm: a minterm all three outputs can share, lying
    // inside a larger cube of every pairwise intersection (multi-output primes of all three)
    {
        let pairs: Vec<(usize, usize)> = (0..4usize).flat_map(|a| ((a + 1)..4).map(move |b| (a, b))).collect();
        let xor_tv = |a: usize, b: usize| -> u16 { (0..16u16).filter(|m| ((m >> a) ^ (m >> b)) & 1 != 0).fold(0u16, |t, m| t | (1 << m)) };
        let mut k = 0usize;
        for c in 0..16u16 {
            for i in 0..pairs.len() {
                for j in (i + 1)..pairs.len() {
                    for l in (j + 1)..pairs.len() {
                        k += 1;
                        if !(thorough || k % 16 == 5 || (c == 15 && (i, j, l) == (3, 4, 5))) {
                            continue;
                        }
                        let fs: Vec<u16> = [pairs[i], pairs[j], pairs[l]].iter().map(|(a, b)| xor_tv(*a, *b) | (1 << c)).collect();
                        lists.push((4, fs, "xor-or-minterm-triples-n4", false, true));
                    }
                }
            }
        }
    }
    let quick_triples = vec![(1, 1, 1), (1, 2, 3), (3, 1, 2)];
    let heavy_triples = vec![(1, 1, 1), (2, 3, 3), (3, 1, 2), (2, 2, 1)];
    let all_triples: Vec<(i32, i32, i32)> = (1..=3).flat_map(|a| (1..=3).flat_map(move |x| (1..=3).map(move |o| (a, x, o)))).collect();
    let mut out = Vec::new();
    for (n, fs, family, meta, heavy) in lists {
        let triples = if family == "repeated-n3" { &all_triples } else if heavy { &heavy_triples } else if thorough { &all_triples } else { &quick_triples };
        let mut seen_sop = std::collections::BTreeSet::new();
        let mut seen_esop = std::collections::BTreeSet::new();
        for t in triples {
            if seen_sop.insert((t.0, t.2)) {
                out.push(Inst { which: "sop", n, fs: fs.clone(), costs: (t.0, 1, t.2), meta, family });
            }
            out.push(Inst { which: "sopes", n, fs: fs.clone(), costs: *t, meta, family });
            // the ESOP model of dense multi-output 4-variable lists takes 15-80 s per solve:
            // only a handful of pairs, in the thorough tier
            let esop_too_slow = (family.starts_with("dense") && !(thorough && fs.len() == 2 && fs[0] % 7 == 3)) || family == "xor-or-minterm-triples-n4";
            if !esop_too_slow && seen_esop.insert((t.0, t.1)) {
                out.push(Inst { which: "esop", n, fs: fs.clone(), costs: (t.0, t.1, 1), meta, family });
            }
        }
    }
    out
}

fn signature(i: &Inst, v: &(String, String)) -> String {
    if i.which == "esop" && v.0.contains("minimum") {
        "C18/esop/not-minimum".to_string()
    } else if v.0.contains("minimum") {
        format!("C18/{}/not-minimum", i.which)
    } else if v.1.starts_with("panic") {
        format!("C18/{}/panic", i.which)
    } else {
        format!("C18/{}/wrong-function", i.which)
    }
}

fn worker(k: usize, nw: usize, tier: Tier, seed: u64, out: &str) -> i32 {
    let mut run = Run::new("C18", tier, seed);
    run.silent = true;
    run.profile = "mip";
    let all = instances(tier);
    let mine: Vec<&Inst> = all.iter().enumerate().filter(|(i, _)| i % nw == k).map(|(_, x)| x).collect();
    let mut families: Vec<&'static str> = Vec::new();
    for i in &all {
        if !families.contains(&i.family) {
            families.push(i.family);
        }
    }
    for which in ["sop", "sopes", "esop"] {
        for family in &families {
            let sel: Vec<&&Inst> = mine.iter().filter(|i| i.which == which && i.family == *family).collect();
            // complete over the property's exhaustive domain: every list of 1..2 functions (n<=2) and
            // every single function (n=3) with all 27 cost triples (thorough tier)
            let exhaustive = tier == Tier::Thorough && (*family == "all-n<=2" || *family == "all-singles-n3" || *family == "triples-n<=1");
            let bound = match *family {
                "all-n<=2" => "all lists of 1..2 functions of n<=2 variables; exhaustive optimum",
                "all-singles-n3" => "all 256 single functions of 3 variables; exhaustive optimum (+ metamorphic on every 16th)",
                "triples-n<=1" => "all 3-output lists for n<=1; exhaustive optimum",
                "npn-pairs-n3" | "npn-triples-n3" => "pairs / triples of the 14 NPN representatives of 3 variables; exhaustive optimum while the state space is <= 2^21",
                "cube-split-triples" => "(c & x, c & !x, c) for every cube c with a free variable x, n = 3 and 4, 3 outputs; exhaustive optimum",
                "literal-or-cube-rotations-n3" => "(literal | 2-literal cube) and its two variable rotations, 3 outputs; exhaustive optimum",
                "literal-or-cube-pairs-n4" => "(literal | 3-literal cube) and a variable-permuted copy, n=4, 2 outputs; exhaustive optimum",
                "repeated-n3" => "every 3-variable function listed twice ([f, f]; some [f, g, f]), all 27 cost triples; exhaustive optimum",
                "xor-or-minterm-triples-n4" => "three outputs (x_a ^ x_b) | minterm over 4 variables (quick: every 16th; thorough: all 320); exhaustive optimum by the cover search",
                "npn-singles-n4" => "NPN representatives of 4 variables, single output; exhaustive optimum (ESOP: 2^16 states), metamorphic on every 4th",
                _ => "dense 2-/3-output lists of 4 variables: beyond the exhaustive search; metamorphic oracle (equivalent instances) only",
            };
            run.section_seq(&format!("MIP optimize_{}_mip / {}", which, family), exhaustive, bound, |l: &mut Local| {
                for i in &sel {
                    l.states += 1;
                    l.transitions += 1;
                    l.validated += 1;
                    let t0 = std::time::Instant::now();
                    let res = check_instance(i.which, i.n, &i.fs, i.costs.0, i.costs.1, i.costs.2, i.meta);
                    if std::env::var("LSX_MIP_TIMING").is_ok() {
                        *l.outcomes.entry(format!("ms:{}:{}", i.family, i.which)).or_insert(0) += t0.elapsed().as_millis() as u64;
                        *l.outcomes.entry(format!("count:{}:{}", i.family, i.which)).or_insert(0) += 1;
                    }
                    match res {
                        Ok((cost, optimum, explored)) => {
                            l.nontrivial += (cost > 0) as u64;
                            l.digest ^= engine::mix3(engine::hash_str(&case_of(i)), cost as u64, 0);
                            l.outcome(if optimum.is_some() { if i.meta { "exhaustive-optimum+metamorphic" } else { "exhaustive-optimum" } } else { "metamorphic-only" });
                            // the oracle's own explicit-state search
                            l.transitions += explored;
                        }
                        Err(v) => {
                            let sig = signature(i, &v);
                            l.violation(format!("{}|{}|{:02}|{}", i.which, i.n, i.fs.len(), case_of(i)), &sig, case_of(i), v.0, v.1);
                        }
                    }
                }
                if let Some(i) = sel.first() {
                    l.sample(J::s(case_of(i)));
                }
            });
        }
    }
    match std::fs::write(out, engine::run_to_json(&run).dump()) {
        Ok(()) => 0,
        Err(e) => {
            eprintln!("worker cannot write {}: {}", out, e);
            2
        }
    }
}

fn parent(tier: Tier, seed: u64) -> i32 {
    let run = Run::new("C18", tier, seed);
    run.set_rule("state = (optimizer, list of 1..3 functions of n<=3 variables, gate-cost triple); transition = one MIP solve; the returned forms must denote the functions (cubes/terms implicants) and their cost under the documented model must equal the optimum found by an exhaustive shortest-path search over all cubes; non-trivial = optimum cost > 0; transitions also count the oracle's explored DP transitions");
    run.assume("cost model of the statement: gates of the distinct cubes used (shared between outputs) x and/xor cost + (terms-1)+ x or/xor cost per output");
    run.assume("TwoLevelOpt (harness-mip/src/main.rs two_level_opt): exhaustive DP over all 3^n cubes (+ all exclusive terms with >= 2 variables for SOPES); independent of the MIP's candidate enumeration");
    let nw = engine::num_workers();
    let exe = std::env::current_exe().expect("current exe");
    let tmp = format!("{}/target/mip/tmp", engine::verif_root());
    let _ = std::fs::create_dir_all(&tmp);
    let mut children = Vec::new();
    for k in 0..nw {
        let out = format!("{}/worker-{}-{}.json", tmp, std::process::id(), k);
        let ch = std::process::Command::new(&exe).arg("worker").arg(k.to_string()).arg(nw.to_string()).arg(tier.name()).arg(&out).env("VERIF_SEED", format!("{}", seed as i64)).stdout(std::process::Stdio::null()).stderr(std::process::Stdio::piped()).spawn();
        match ch {
            Ok(c) => children.push((c, out)),
            Err(e) => {
                run.machinery(format!("cannot spawn worker: {}", e));
                return engine::finish(&run);
            }
        }
    }
    let mut merged: HashMap<String, engine::Section> = HashMap::new();
    let mut order: Vec<String> = Vec::new();
    for (c, out) in children {
        let o = c.wait_with_output();
        let ok = matches!(&o, Ok(x) if x.status.success());
        if !ok {
            run.machinery(format!("MIP worker failed: {:?}", o.map(|x| String::from_utf8_lossy(&x.stderr).chars().take(1500).collect::<String>())));
            continue;
        }
        let text = std::fs::read_to_string(&out).unwrap_or_default();
        let _ = std::fs::remove_file(&out);
        let j = match engine::json::parse(&text) {
            Ok(j) => j,
            Err(e) => {
                run.machinery(format!("worker output unparsable: {}", e));
                continue;
            }
        };
        for s in j.get("sections").and_then(|s| s.as_arr()).unwrap_or(&[]) {
            let g = |k: &str| s.get(k).and_then(|x| x.as_i()).unwrap_or(0) as u64;
            let name = s.get("name").and_then(|x| x.as_str()).unwrap_or("").to_string();
            let e = merged.entry(name.clone()).or_insert_with(|| {
                order.push(name.clone());
                engine::Section { name: name.clone(), exhaustive: matches!(s.get("exhaustive"), Some(J::Bool(true))), bound: s.get("bound").and_then(|x| x.as_str()).unwrap_or("").to_string(), states: 0, transitions: 0, validated: 0, nontrivial: 0, digest: 0, wall_s: 0.0 }
            });
            e.states += g("states");
            e.transitions += g("transitions");
            e.validated += g("validated");
            e.nontrivial += g("nontrivial");
            e.digest ^= u64::from_str_radix(s.get("digest").and_then(|x| x.as_str()).unwrap_or("0"), 16).unwrap_or(0);
        }
        for v in j.get("violations").and_then(|s| s.as_arr()).unwrap_or(&[]) {
            let g = |k: &str| v.get(k).and_then(|x| x.as_str()).unwrap_or("").to_string();
            run.viols.lock().unwrap().push(Violation { key: g("key"), sig: g("sig"), case: g("case"), expected: g("expected"), observed: g("observed") });
        }
        run.viol_count.fetch_add(j.get("viol_count").and_then(|x| x.as_i()).unwrap_or(0) as u64, std::sync::atomic::Ordering::Relaxed);
        if let Some(J::Obj(o)) = j.get("outcomes") {
            let mut oc = run.outcomes.lock().unwrap();
            for (k, v) in o {
                *oc.entry(k.clone()).or_insert(0) += v.as_i().unwrap_or(0) as u64;
            }
        }
        if let Some(J::Str(m)) = j.get("machinery") {
            run.machinery(m.clone());
        }
    }
    for name in order {
        let s = merged.remove(&name).unwrap();
        eprintln!("[C18] {:<58} states={:<9} transitions={:<12} nontrivial={:<9} {}", s.name, s.states, s.transitions, s.nontrivial, if s.exhaustive { "exhaustive" } else { "bounded" });
        run.sections.lock().unwrap().push(s);
    }
    run.samples.lock().unwrap().push(J::s("kind=mip;which=esop;n=1;fs=2;and=1;xor=1;or=1  (optimize_esop_mip(&[x0], 1, 1))"));
    run.samples.lock().unwrap().push(J::s(case_of(&instances(tier)[instances(tier).len() / 2])));
    run.extra("workers", J::i(nw as u64));
    run.extra("instances", J::i(instances(tier).len() as u64));
    engine::finish(&run)
}

fn replay(path: &str) -> i32 {
    let text = match std::fs::read_to_string(path) {
        Ok(t) => t,
        Err(e) => {
            eprintln!("MACHINERY-ERROR {}", e);
            return 2;
        }
    };
    let j = match engine::json::parse(&text) {
        Ok(j) => j,
        Err(e) => {
            eprintln!("MACHINERY-ERROR {}", e);
            return 2;
        }
    };
    let case_s = j.get("case").and_then(|x| x.as_str()).unwrap_or("").to_string();
    let case = Case::parse(&case_s);
    let go = || -> Result<Verdict, String> {
        let n = case.usize("n")?;
        let fs: Result<Vec<u16>, String> = case.get("fs")?.split('.').map(|s| u16::from_str_radix(s, 16).map_err(|e| e.to_string())).collect();
        let g = |k: &str| -> Result<i32, String> { case.get(k)?.parse::<i32>().map_err(|e| e.to_string()) };
        let meta = case.opt("meta") == Some("1");
        Ok(check_instance(case.get("which")?, n, &fs?, g("and")?, g("xor")?, g("or")?, meta).map(|_| ()))
    };
    match go() {
        Err(e) => {
            eprintln!("MACHINERY-ERROR {}", e);
            2
        }
        Ok(Ok(())) => {
            println!("REPLAY-OK property=C18 case={} (the recorded violation no longer reproduces)", case_s);
            0
        }
        Ok(Err((e, o))) => {
            println!("VIOLATION property=C18 replay={}", path);
            println!("  case:      {}", case_s);
            println!("  expected:  {}", e);
            println!("  observed:  {}", o);
            1
        }
    }
}

fn main() {
    engine::install_panic_hook();
    let args: Vec<String> = std::env::args().collect();
    let seed: u64 = std::env::var("VERIF_SEED").ok().and_then(|s| s.parse::<i64>().ok()).map(|x| x as u64).unwrap_or(0);
    let tier_of = |s: Option<&String>| if s.map(|x| x.as_str()) == Some("thorough") { Tier::Thorough } else { Tier::Quick };
    match args.get(1).map(|s| s.as_str()) {
        Some("C18") => {
            let tier = tier_of(args.get(2));
            engine::start_watchdog(tier);
            if let Err(e) = model::cube::self_check().and_then(|_| model::group::self_check()) {
                eprintln!("MACHINERY-ERROR model self-check: {}", e);
                std::process::exit(2);
            }
            std::process::exit(parent(tier, seed));
        }
        Some("worker") if args.len() >= 6 => {
            let tier = tier_of(args.get(4));
            engine::start_watchdog(tier);
            std::process::exit(worker(args[2].parse().unwrap_or(0), args[3].parse().unwrap_or(1), tier, seed, &args[5]));
        }
        Some("replay") if args.len() >= 3 => std::process::exit(replay(&args[2])),
        _ => {
            eprintln!("usage: lsx-mip C18 quick|thorough | lsx-mip replay <file>");
            std::process::exit(2);
        }
    }
}
