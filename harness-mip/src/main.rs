//! lsx-mip — C18: the MIP two-level optimizers return exact covers of minimum gate cost.
//! volute is built with feature `optim-mip`. Oracle: `TwoLevelOpt`, an exhaustive
//! shortest-path search over ALL cubes (resp. all implicants and exclusive terms), whose state
//! is the tuple of covered on-sets (SOP/SOPES) or accumulated XOR functions (ESOP) — itself
//! an explicit-state search, independent of the MIP's candidate enumeration.
//!
//!   lsx-mip C18 quick|thorough     (spawns 16 worker processes: HiGHS instances are not shared)
//!   lsx-mip worker <k> <N> <tier> <out.json>
//!   lsx-mip replay <file>

#![allow(dead_code)]

#[path = "../../harness/src/engine/mod.rs"]
mod engine;
#[path = "../../harness/src/model/mod.rs"]
mod model;

use engine::json::J;
use engine::{guarded, Case, Local, Run, Tier, Violation};
use model::cube::{CubeM, EcubeM};
use model::group::{orbit_min, Grp};
use model::tt::{nbits, TT};
use std::collections::HashMap;
use volute::sop::optim::{optimize_esop_mip, optimize_sop_mip, optimize_sopes_mip};
use volute::Lut;

type Verdict = Result<(), (String, String)>;

fn fail<T>(e: impl Into<String>, o: impl Into<String>) -> Result<T, (String, String)> {
    Err((e.into(), o.into()))
}

#[derive(Clone)]
struct Term {
    tv: u8,      // truth table over n <= 3 variables
    gate: i64,   // cost of its gates (paid once if used in any output)
    name: String,
}

fn cube_tv(n: usize, c: &CubeM) -> u8 {
    let mut t = 0u8;
    for m in 0..nbits(n) {
        if c.value(m as u64) {
            t |= 1 << m;
        }
    }
    t
}

fn all_cube_terms(n: usize, and_cost: i64) -> Vec<Term> {
    let mut v = Vec::new();
    for p in 0..(1u32 << n) {
        for q in 0..(1u32 << n) {
            if p & q == 0 {
                let c = CubeM::from_masks(p, q);
                let lits = c.num_lits() as i64;
                v.push(Term { tv: cube_tv(n, &c), gate: std::cmp::max(lits, 1).saturating_sub(1) * and_cost, name: format!("cube+{:x}-{:x}", p, q) });
            }
        }
    }
    v
}

fn all_ecube_terms(n: usize, xor_cost: i64) -> Vec<Term> {
    let mut v = Vec::new();
    for vars in 0..(1u32 << n) {
        for x in [false, true] {
            let e = EcubeM::from_mask(vars, x);
            let lits = e.vars.len() as i64;
            if lits >= 2 {
                // terms with fewer than two variables denote constants or literals: cubes of cost 0 already
                let mut t = 0u8;
                for m in 0..nbits(n) {
                    if e.value(m as u64) {
                        t |= 1 << m;
                    }
                }
                v.push(Term { tv: t, gate: (lits - 1) * xor_cost, name: format!("ecube{:x}{}", vars, if x { "n" } else { "" }) });
            }
        }
    }
    v
}

/// Exhaustive optimum. `xor_sem`: outputs are XORs of terms (ESOP), else ORs of implicants.
/// Returns (optimum cost, states explored).
fn two_level_opt(n: usize, fs: &[u8], terms: &[Term], per_use: i64, xor_sem: bool) -> (i64, u64) {
    let k = fs.len();
    let full: u8 = if nbits(n) == 8 { 0xff } else { (1u8 << nbits(n)) - 1 };
    let pack = |s: &[u8]| -> u32 { s.iter().enumerate().fold(0u32, |a, (j, x)| a | ((*x as u32) << (8 * j))) };
    let mut dp: HashMap<u32, i64> = HashMap::new();
    dp.insert(0, 0);
    let mut explored = 0u64;
    for t in terms {
        // the outputs this term may be used in
        let mut usable: Vec<usize> = Vec::new();
        for j in 0..k {
            if fs[j] == 0 {
                continue; // a constant-zero output uses no term
            }
            if xor_sem || (t.tv & !fs[j] & full) == 0 {
                usable.push(j);
            }
        }
        if usable.is_empty() {
            continue;
        }
        let mut next = dp.clone();
        for (st, cost) in dp.iter() {
            for sub in 1u32..(1u32 << usable.len()) {
                let mut s = *st;
                let mut uses = 0i64;
                for (b, j) in usable.iter().enumerate() {
                    if (sub >> b) & 1 != 0 {
                        uses += 1;
                        let cur = ((s >> (8 * j)) & 0xff) as u8;
                        let nw = if xor_sem { cur ^ t.tv } else { cur | t.tv };
                        s = (s & !(0xffu32 << (8 * j))) | ((nw as u32) << (8 * j));
                    }
                }
                let c = cost + t.gate + per_use * uses;
                explored += 1;
                let e = next.entry(s).or_insert(i64::MAX);
                if c < *e {
                    *e = c;
                }
            }
        }
        dp = next;
    }
    let target = pack(fs);
    let nonzero = fs.iter().filter(|f| **f != 0).count() as i64;
    match dp.get(&target) {
        Some(c) => (*c - per_use * nonzero, explored),
        None => (i64::MAX, explored),
    }
}

fn lut_of(n: usize, f: u8) -> Lut {
    Lut::from_blocks(n, &[f as u64])
}

fn abs_cube(c: &volute::sop::Cube) -> CubeM {
    CubeM { pos: c.pos_vars().collect(), neg: c.neg_vars().collect() }
}

fn abs_ecube(e: &volute::sop::Ecube) -> EcubeM {
    EcubeM { vars: e.vars().collect(), xnor: e.value(0) }
}

/// One instance: (optimizer, n, functions, costs). Returns (returned cost, optimum).
fn check_instance(which: &str, n: usize, fs: &[u8], and_c: i32, xor_c: i32, or_c: i32) -> Result<(i64, i64, u64), (String, String)> {
    let luts: Vec<Lut> = fs.iter().map(|f| lut_of(n, *f)).collect();
    let full: u8 = if nbits(n) == 8 { 0xff } else { (1u8 << nbits(n)) - 1 };
    match which {
        "sop" | "sopes" => {
            let r = guarded(|| if which == "sop" { optimize_sop_mip(&luts, and_c, or_c).into_iter().map(|s| (s, None)).collect::<Vec<_>>() } else { optimize_sopes_mip(&luts, and_c, xor_c, or_c).into_iter().map(|(s, e)| (s, Some(e))).collect::<Vec<_>>() });
            let res = match r {
                Err(p) => return fail(format!("optimize_{}_mip returns one form per function", which), p),
                Ok(x) => x,
            };
            if res.len() != fs.len() {
                return fail(format!("{} forms", fs.len()), format!("{}", res.len()));
            }
            let mut used_cubes: std::collections::BTreeSet<CubeM> = Default::default();
            let mut used_ecubes: std::collections::BTreeSet<EcubeM> = Default::default();
            let mut cost = 0i64;
            for (j, (sop, soes)) in res.iter().enumerate() {
                let mut acc = 0u8;
                let mut terms = 0i64;
                for c in sop.cubes() {
                    let m = abs_cube(c);
                    let tv = cube_tv(n, &m);
                    if m.contradictory() || tv & !fs[j] & full != 0 {
                        return fail(format!("every cube of output {} is an implicant of {:#x}", j, fs[j]), format!("{} in {}", c, sop));
                    }
                    acc |= tv;
                    terms += 1;
                    used_cubes.insert(m);
                }
                if let Some(soes) = soes {
                    for e in soes.cubes() {
                        let m = abs_ecube(e);
                        let mut tv = 0u8;
                        for a in 0..nbits(n) {
                            if m.value(a as u64) {
                                tv |= 1 << a;
                            }
                        }
                        if tv & !fs[j] & full != 0 {
                            return fail(format!("every exclusive term of output {} is an implicant of {:#x}", j, fs[j]), format!("{} in {}", e, soes));
                        }
                        acc |= tv;
                        terms += 1;
                        used_ecubes.insert(m);
                    }
                }
                if acc != fs[j] {
                    return fail(format!("output {} denotes exactly {:#x}", j, fs[j]), format!("{:#x}: {} {}", acc, sop, soes.as_ref().map(|s| s.to_string()).unwrap_or_default()));
                }
                cost += std::cmp::max(terms - 1, 0) * or_c as i64;
            }
            for c in &used_cubes {
                cost += std::cmp::max(c.num_lits() as i64, 1).saturating_sub(1) * and_c as i64;
            }
            for e in &used_ecubes {
                cost += std::cmp::max(e.vars.len() as i64, 1).saturating_sub(1) * xor_c as i64;
            }
            let mut terms = all_cube_terms(n, and_c as i64);
            if which == "sopes" {
                terms.extend(all_ecube_terms(n, xor_c as i64));
            }
            let (opt, explored) = two_level_opt(n, fs, &terms, or_c as i64, false);
            if cost != opt {
                return fail(format!("total cost = the minimum over all such two-level forms = {}", opt), format!("{} for {:?}", cost, res.iter().map(|(s, e)| format!("{}{}", s, e.as_ref().map(|x| format!(" || {}", x)).unwrap_or_default())).collect::<Vec<_>>()));
            }
            Ok((cost, opt, explored))
        }
        _ => {
            let r = guarded(|| optimize_esop_mip(&luts, and_c, xor_c));
            let res = match r {
                Err(p) => return fail("optimize_esop_mip returns one form per function", p),
                Ok(x) => x,
            };
            if res.len() != fs.len() {
                return fail(format!("{} forms", fs.len()), format!("{}", res.len()));
            }
            let mut used: std::collections::BTreeSet<CubeM> = Default::default();
            let mut cost = 0i64;
            for (j, esop) in res.iter().enumerate() {
                let mut acc = 0u8;
                let mut terms = 0i64;
                for c in esop.cubes() {
                    let m = abs_cube(c);
                    acc ^= cube_tv(n, &m);
                    terms += 1;
                    used.insert(m);
                }
                if acc != fs[j] {
                    return fail(format!("output {} denotes exactly {:#x}", j, fs[j]), format!("{:#x}: {}", acc, esop));
                }
                cost += std::cmp::max(terms - 1, 0) * xor_c as i64;
            }
            for c in &used {
                cost += std::cmp::max(c.num_lits() as i64, 1).saturating_sub(1) * and_c as i64;
            }
            let terms = all_cube_terms(n, and_c as i64);
            let (opt, explored) = two_level_opt(n, fs, &terms, xor_c as i64, true);
            if cost != opt {
                return fail(format!("total cost = the minimum over all XOR-of-cubes forms = {}", opt), format!("{} for {:?}", cost, res.iter().map(|e| e.to_string()).collect::<Vec<_>>()));
            }
            Ok((cost, opt, explored))
        }
    }
}

#[derive(Clone)]
struct Inst {
    which: &'static str,
    n: usize,
    fs: Vec<u8>,
    costs: (i32, i32, i32),
}

fn case_of(i: &Inst) -> String {
    format!("kind=mip;which={};n={};fs={};and={};xor={};or={}", i.which, i.n, i.fs.iter().map(|f| format!("{:x}", f)).collect::<Vec<_>>().join("."), i.costs.0, i.costs.1, i.costs.2)
}

fn instances(tier: Tier) -> Vec<Inst> {
    let mut lists: Vec<(usize, Vec<u8>)> = Vec::new();
    for n in 0..=2usize {
        let size = 1u32 << nbits(n);
        for a in 0..size {
            lists.push((n, vec![a as u8]));
            for b in 0..size {
                lists.push((n, vec![a as u8, b as u8]));
            }
        }
    }
    for a in 0..256u32 {
        lists.push((3, vec![a as u8]));
    }
    if tier == Tier::Thorough {
        // pairs of NPN-representative functions of 3 variables, 3-output lists for n <= 1
        let mut reps: Vec<u8> = (0..256u32).map(|x| orbit_min(&TT::from_u64(3, x as u64), Grp::Npn).0.w[0] as u8).collect();
        reps.sort();
        reps.dedup();
        for a in &reps {
            for b in &reps {
                lists.push((3, vec![*a, *b]));
            }
        }
        for n in 0..=1usize {
            let size = 1u32 << nbits(n);
            for a in 0..size {
                for b in 0..size {
                    for c in 0..size {
                        lists.push((n, vec![a as u8, b as u8, c as u8]));
                    }
                }
            }
        }
    }
    let quick_triples = vec![(1, 1, 1), (1, 2, 3), (3, 1, 2)];
    let all_triples: Vec<(i32, i32, i32)> = (1..=3).flat_map(|a| (1..=3).flat_map(move |x| (1..=3).map(move |o| (a, x, o)))).collect();
    let mut out = Vec::new();
    for (n, fs) in lists {
        let heavy = n == 3 && fs.len() >= 2;
        let triples = if tier == Tier::Thorough && !heavy { &all_triples } else { &quick_triples };
        let mut seen_sop = std::collections::BTreeSet::new();
        let mut seen_esop = std::collections::BTreeSet::new();
        for t in triples {
            if seen_sop.insert((t.0, t.2)) {
                out.push(Inst { which: "sop", n, fs: fs.clone(), costs: (t.0, 1, t.2) });
            }
            out.push(Inst { which: "sopes", n, fs: fs.clone(), costs: *t });
            if seen_esop.insert((t.0, t.1)) {
                out.push(Inst { which: "esop", n, fs: fs.clone(), costs: (t.0, t.1, 1) });
            }
        }
    }
    out
}

fn signature(i: &Inst, v: &(String, String)) -> String {
    if i.which == "esop" && v.0.contains("minimum") {
        "C18/esop/not-minimum".to_string()
    } else if v.0.contains("minimum") {
        format!("C18/{}/not-minimum", i.which)
    } else if v.1.starts_with("panic") {
        format!("C18/{}/panic", i.which)
    } else {
        format!("C18/{}/wrong-function", i.which)
    }
}

fn worker(k: usize, nw: usize, tier: Tier, seed: u64, out: &str) -> i32 {
    let mut run = Run::new("C18", tier, seed);
    run.silent = true;
    run.profile = "mip";
    let all = instances(tier);
    let mine: Vec<&Inst> = all.iter().enumerate().filter(|(i, _)| i % nw == k).map(|(_, x)| x).collect();
    for which in ["sop", "sopes", "esop"] {
        let sel: Vec<&&Inst> = mine.iter().filter(|i| i.which == which).collect();
        let exhaustive = tier == Tier::Thorough;
        run.section_seq(&format!("MIP optimize_{}_mip vs exhaustive two-level optimum", which), exhaustive, "all lists of 1..2 functions n<=2, all single functions n=3 (thorough: all cost triples of {1,2,3}^3, pairs of NPN representatives n=3, 3-output lists n<=1)", |l: &mut Local| {
            for i in &sel {
                l.states += 1;
                l.transitions += 1;
                l.validated += 1;
                match check_instance(i.which, i.n, &i.fs, i.costs.0, i.costs.1, i.costs.2) {
                    Ok((cost, _, explored)) => {
                        l.nontrivial += (cost > 0) as u64;
                        l.digest ^= engine::mix3(engine::hash_str(&case_of(i)), cost as u64, 0);
                        l.outcome(&format!("cost{}", cost.min(9)));
                        // the oracle's own explicit-state search
                        l.transitions += explored;
                    }
                    Err(v) => {
                        let sig = signature(i, &v);
                        l.violation(format!("{}|{}|{:02}|{}", i.which, i.n, i.fs.len(), case_of(i)), &sig, case_of(i), v.0, v.1);
                    }
                }
            }
            if let Some(i) = sel.first() {
                l.sample(J::s(case_of(i)));
            }
        });
    }
    match std::fs::write(out, engine::run_to_json(&run).dump()) {
        Ok(()) => 0,
        Err(e) => {
            eprintln!("worker cannot write {}: {}", out, e);
            2
        }
    }
}

fn parent(tier: Tier, seed: u64) -> i32 {
    let run = Run::new("C18", tier, seed);
    run.set_rule("state = (optimizer, list of 1..3 functions of n<=3 variables, gate-cost triple); transition = one MIP solve; the returned forms must denote the functions (cubes/terms implicants) and their cost under the documented model must equal the optimum found by an exhaustive shortest-path search over all cubes; non-trivial = optimum cost > 0; transitions also count the oracle's explored DP transitions");
    run.assume("cost model of the statement: gates of the distinct cubes used (shared between outputs) x and/xor cost + (terms-1)+ x or/xor cost per output");
    run.assume("TwoLevelOpt (harness-mip/src/main.rs two_level_opt): exhaustive DP over all 3^n cubes (+ all exclusive terms with >= 2 variables for SOPES); independent of the MIP's candidate enumeration");
    let nw = engine::num_workers();
    let exe = std::env::current_exe().expect("current exe");
    let tmp = format!("{}/target/mip/tmp", engine::verif_root());
    let _ = std::fs::create_dir_all(&tmp);
    let mut children = Vec::new();
    for k in 0..nw {
        let out = format!("{}/worker-{}-{}.json", tmp, std::process::id(), k);
        let ch = std::process::Command::new(&exe).arg("worker").arg(k.to_string()).arg(nw.to_string()).arg(tier.name()).arg(&out).env("VERIF_SEED", format!("{}", seed as i64)).stdout(std::process::Stdio::null()).stderr(std::process::Stdio::piped()).spawn();
        match ch {
            Ok(c) => children.push((c, out)),
            Err(e) => {
                run.machinery(format!("cannot spawn worker: {}", e));
                return engine::finish(&run);
            }
        }
    }
    let mut merged: HashMap<String, engine::Section> = HashMap::new();
    let mut order: Vec<String> = Vec::new();
    for (c, out) in children {
        let o = c.wait_with_output();
        let ok = matches!(&o, Ok(x) if x.status.success());
        if !ok {
            run.machinery(format!("MIP worker failed: {:?}", o.map(|x| String::from_utf8_lossy(&x.stderr).chars().take(1500).collect::<String>())));
            continue;
        }
        let text = std::fs::read_to_string(&out).unwrap_or_default();
        let _ = std::fs::remove_file(&out);
        let j = match engine::json::parse(&text) {
            Ok(j) => j,
            Err(e) => {
                run.machinery(format!("worker output unparsable: {}", e));
                continue;
            }
        };
        for s in j.get("sections").and_then(|s| s.as_arr()).unwrap_or(&[]) {
            let g = |k: &str| s.get(k).and_then(|x| x.as_i()).unwrap_or(0) as u64;
            let name = s.get("name").and_then(|x| x.as_str()).unwrap_or("").to_string();
            let e = merged.entry(name.clone()).or_insert_with(|| {
                order.push(name.clone());
                engine::Section { name: name.clone(), exhaustive: matches!(s.get("exhaustive"), Some(J::Bool(true))), bound: s.get("bound").and_then(|x| x.as_str()).unwrap_or("").to_string(), states: 0, transitions: 0, validated: 0, nontrivial: 0, digest: 0, wall_s: 0.0 }
            });
            e.states += g("states");
            e.transitions += g("transitions");
            e.validated += g("validated");
            e.nontrivial += g("nontrivial");
            e.digest ^= u64::from_str_radix(s.get("digest").and_then(|x| x.as_str()).unwrap_or("0"), 16).unwrap_or(0);
        }
        for v in j.get("violations").and_then(|s| s.as_arr()).unwrap_or(&[]) {
            let g = |k: &str| v.get(k).and_then(|x| x.as_str()).unwrap_or("").to_string();
            run.viols.lock().unwrap().push(Violation { key: g("key"), sig: g("sig"), case: g("case"), expected: g("expected"), observed: g("observed") });
        }
        run.viol_count.fetch_add(j.get("viol_count").and_then(|x| x.as_i()).unwrap_or(0) as u64, std::sync::atomic::Ordering::Relaxed);
        if let Some(J::Obj(o)) = j.get("outcomes") {
            let mut oc = run.outcomes.lock().unwrap();
            for (k, v) in o {
                *oc.entry(k.clone()).or_insert(0) += v.as_i().unwrap_or(0) as u64;
            }
        }
        if let Some(J::Str(m)) = j.get("machinery") {
            run.machinery(m.clone());
        }
    }
    for name in order {
        let s = merged.remove(&name).unwrap();
        eprintln!("[C18] {:<58} states={:<9} transitions={:<12} nontrivial={:<9} {}", s.name, s.states, s.transitions, s.nontrivial, if s.exhaustive { "exhaustive" } else { "bounded" });
        run.sections.lock().unwrap().push(s);
    }
    run.samples.lock().unwrap().push(J::s("kind=mip;which=esop;n=1;fs=2;and=1;xor=1;or=1  (optimize_esop_mip(&[x0], 1, 1))"));
    run.samples.lock().unwrap().push(J::s(case_of(&instances(tier)[instances(tier).len() / 2])));
    run.extra("workers", J::i(nw as u64));
    run.extra("instances", J::i(instances(tier).len() as u64));
    engine::finish(&run)
}

fn replay(path: &str) -> i32 {
    let text = match std::fs::read_to_string(path) {
        Ok(t) => t,
        Err(e) => {
            eprintln!("MACHINERY-ERROR {}", e);
            return 2;
        }
    };
    let j = match engine::json::parse(&text) {
        Ok(j) => j,
        Err(e) => {
            eprintln!("MACHINERY-ERROR {}", e);
            return 2;
        }
    };
    let case_s = j.get("case").and_then(|x| x.as_str()).unwrap_or("").to_string();
    let case = Case::parse(&case_s);
    let go = || -> Result<Verdict, String> {
        let n = case.usize("n")?;
        let fs: Result<Vec<u8>, String> = case.get("fs")?.split('.').map(|s| u8::from_str_radix(s, 16).map_err(|e| e.to_string())).collect();
        let g = |k: &str| -> Result<i32, String> { case.get(k)?.parse::<i32>().map_err(|e| e.to_string()) };
        Ok(check_instance(case.get("which")?, n, &fs?, g("and")?, g("xor")?, g("or")?).map(|_| ()))
    };
    match go() {
        Err(e) => {
            eprintln!("MACHINERY-ERROR {}", e);
            2
        }
        Ok(Ok(())) => {
            println!("REPLAY-OK property=C18 case={} (the recorded violation no longer reproduces)", case_s);
            0
        }
        Ok(Err((e, o))) => {
            println!("VIOLATION property=C18 replay={}", path);
            println!("  case:      {}", case_s);
            println!("  expected:  {}", e);
            println!("  observed:  {}", o);
            1
        }
    }
}

fn main() {
    engine::install_panic_hook();
    let args: Vec<String> = std::env::args().collect();
    let seed: u64 = std::env::var("VERIF_SEED").ok().and_then(|s| s.parse::<i64>().ok()).map(|x| x as u64).unwrap_or(0);
    let tier_of = |s: Option<&String>| if s.map(|x| x.as_str()) == Some("thorough") { Tier::Thorough } else { Tier::Quick };
    match args.get(1).map(|s| s.as_str()) {
        Some("C18") => {
            let tier = tier_of(args.get(2));
            engine::start_watchdog(tier);
            if let Err(e) = model::cube::self_check().and_then(|_| model::group::self_check()) {
                eprintln!("MACHINERY-ERROR model self-check: {}", e);
                std::process::exit(2);
            }
            std::process::exit(parent(tier, seed));
        }
        Some("worker") if args.len() >= 6 => {
            let tier = tier_of(args.get(4));
            engine::start_watchdog(tier);
            std::process::exit(worker(args[2].parse().unwrap_or(0), args[3].parse().unwrap_or(1), tier, seed, &args[5]));
        }
        Some("replay") if args.len() >= 3 => std::process::exit(replay(&args[2])),
        _ => {
            eprintln!("usage: lsx-mip C18 quick|thorough | lsx-mip replay <file>");
            std::process::exit(2);
        }
    }
}
