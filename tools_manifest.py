#!/usr/bin/env python3
"""Generate /verif/MANIFEST.json from the table below (kept in one place so that the
claimed list, techniques and texts stay consistent). Run after adding a property check."""
import json, subprocess

BASE_TECH = "explicit-state exploration of the real code in lock-step with a reference model: "
CHECKS = {
 "C01": dict(
   technique=BASE_TECH + "complete one-step sweep of all ordered operand pairs (n<=3; n=4 thorough) x 28 operator forms, plus an enumerated table alphabet for n=4..14",
   text="Every ordered pair of n-variable functions for n<=3 (quick) and n=4 (thorough, 2^32 pairs) is pushed through all 28 syntactic operator forms of both types and compared, assignment by assignment, with the pointwise model; for n up to 14 the pairs come from a finite, fully enumerated alphabet (named functions, all weight-1/2 tables and complements, word patterns with one-word deviations). Complete below the bound, bounded above it; this is the right level because the operators are pure one-step functions, so a complete one-step sweep from every state is an inductive argument for all histories.",
   note="Trusted: the 60-line pointwise model (model/tt.rs) and the block view <-> value() correspondence (itself checked). For n>=5 only the enumerated alphabet is covered.",
   design="§4 C01"),
}
NOT_YET = "check not built yet in this session (work in progress; see DESIGN.md for the planned exploration)"

props = [json.loads(l)["id"] for l in open("/verif/properties.jsonl")]
def commits():
    out = subprocess.run(["git","-C","/repo","log","--format=%H %s"],capture_output=True,text=True).stdout.splitlines()
    return [l.split()[0] for l in out if "verif hook" in l]

man = {
 "version": 1,
 "setup_cmd": "./check setup",
 "hooks": {
   "guard": "--cfg volute_verif",
   "enable": "rustflags = [\"--cfg\", \"volute_verif\"] in /verif/harness*/.cargo/config.toml (every harness workspace builds /repo as a path dependency with the cfg on)",
   "baseline_off_cmd": "cd /repo && cargo test --workspace --no-fail-fast --offline",
   "source_commits": commits(),
   "add_only": True,
 },
 "engines": [
   {"name": "lsx", "path": "harness/", "serves_properties": [p for p in CHECKS if p not in ("C18","C19")], "kind_free_text": "lock-step explicit-state explorer (SWEEP / REACH / CONFIG modes) calling the real volute code next to reference models; Rust, 16 worker threads"},
 ],
 "checks": [],
 "not_applicable": [],
 "notes": "Exit codes: 0 held, 1 VIOLATION (with replay file), >=2 machinery failure (never a verdict). known_findings.json lists dispositioned defects; evidence/<id>.json is rewritten by every run.",
}
for p in props:
    if p in CHECKS:
        c = CHECKS[p]
        man["checks"].append({
          "property_id": p,
          "quick_cmd": f"./check {p} quick",
          "thorough_cmd": f"./check {p} thorough",
          "evidence_file": f"/verif/evidence/{p}.json",
          "replay_cmd_template": "./check replay {path}",
          "engine": c.get("engine","lsx"),
          "level_claimed": {"category": "model_checking", "text": c["text"], "design_ref": c["design"]},
          "level_note": c["note"],
          "technique": c["technique"],
        })
    else:
        man["not_applicable"].append({"property_id": p, "reason": NOT_YET})
json.dump(man, open("/verif/MANIFEST.json","w"), indent=1)
print("claimed:", [c["property_id"] for c in man["checks"]])
