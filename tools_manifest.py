#!/usr/bin/env python3
"""Generate /verif/MANIFEST.json from the table below (kept in one place so that the
claimed list, techniques and texts stay consistent). Run after adding a property check."""
import json, subprocess

BASE_TECH = "explicit-state exploration of the real code in lock-step with a reference model: "
CHECKS = json.load(open("/verif/manifest_checks.json"))
for _c in CHECKS.values():
    _c["technique"] = _c["technique"].replace("{BASE}", BASE_TECH)
NOT_YET = "check not built yet in this session (work in progress; see DESIGN.md for the planned exploration)"

props = [json.loads(l)["id"] for l in open("/verif/properties.jsonl")]
def commits():
    out = subprocess.run(["git","-C","/repo","log","--format=%H %s"],capture_output=True,text=True).stdout.splitlines()
    return [l.split()[0] for l in out if "verif hook" in l]

man = {
 "version": 1,
 "setup_cmd": "./check setup",
 "hooks": {
   "guard": "--cfg volute_verif",
   "enable": "rustflags = [\"--cfg\", \"volute_verif\"] in /verif/harness*/.cargo/config.toml (every harness workspace builds /repo as a path dependency with the cfg on)",
   "baseline_off_cmd": "cd /repo && cargo test --workspace --no-fail-fast --offline",
   "source_commits": commits(),
   "add_only": True,
 },
 "engines": [
   {"name": "lsx", "path": "harness/", "serves_properties": [p for p in CHECKS if p not in ("C18","C19")], "kind_free_text": "lock-step explicit-state explorer (SWEEP / REACH / CONFIG modes) calling the real volute code next to reference models; Rust, 16 worker threads"},
   {"name": "lsx-env", "path": "harness-rng/ (+ shim/rand, harness/src/props/c19.rs)", "serves_properties": [p for p in CHECKS if p == "C19"], "kind_free_text": "ENV-mode explorer: volute built against a scripted rand; enumerates answer streams with bounded deviations"},
   {"name": "lsx-mip", "path": "harness-mip/", "serves_properties": [p for p in CHECKS if p == "C18"], "kind_free_text": "explorer built with feature optim-mip; oracle = exhaustive shortest-path search over all cubes (TwoLevelOpt)"},
 ],
 "checks": [],
 "not_applicable": [],
 "notes": "Exit codes: 0 held, 1 VIOLATION (with replay file), >=2 machinery failure (never a verdict). known_findings.json lists dispositioned defects; evidence/<id>.json is rewritten by every run.",
}
for p in props:
    if p in CHECKS:
        c = CHECKS[p]
        man["checks"].append({
          "property_id": p,
          "quick_cmd": f"./check {p} quick",
          "thorough_cmd": f"./check {p} thorough",
          "evidence_file": f"/verif/evidence/{p}.json",
          "replay_cmd_template": "./check replay {path}",
          "engine": c.get("engine","lsx"),
          "level_claimed": {"category": "model_checking", "text": c["text"], "design_ref": c["design"]},
          "level_note": c["note"],
          "technique": c["technique"],
        })
    else:
        man["not_applicable"].append({"property_id": p, "reason": NOT_YET})
json.dump(man, open("/verif/MANIFEST.json","w"), indent=1)
print("claimed:", [c["property_id"] for c in man["checks"]])
